package main

import (
	"bytes"
	"compress/zlib"
	"crypto/sha1"
	"encoding/hex"
	"fmt"
	"os"
	"path/filepath"
	"sort"
	"strings"
)

// objStore writes loose objects directly (no git process), so that trees git's
// own tools would refuse to create (".git" entries, "..", names with slashes,
// duplicate entries) can be stored byte-exactly.
type objStore struct{ gitdir string }

func (s objStore) write(typ string, body []byte) string {
	hdr := []byte(fmt.Sprintf("%s %d\x00", typ, len(body)))
	h := sha1.New()
	h.Write(hdr)
	h.Write(body)
	id := hex.EncodeToString(h.Sum(nil))
	p := filepath.Join(s.gitdir, "objects", id[:2], id[2:])
	if _, err := os.Stat(p); err == nil {
		return id
	}
	os.MkdirAll(filepath.Dir(p), 0o755)
	var buf bytes.Buffer
	zw := zlib.NewWriter(&buf)
	zw.Write(hdr)
	zw.Write(body)
	zw.Close()
	os.WriteFile(p, buf.Bytes(), 0o444)
	return id
}

func (s objStore) blob(b []byte) string { return s.write("blob", b) }

type entry struct {
	mode string // 100644 100755 120000 40000 160000
	name string // raw bytes, may contain anything but NUL
	id   string
}

func (s objStore) tree(es []entry) string {
	sort.SliceStable(es, func(i, j int) bool {
		a, b := es[i].name, es[j].name
		if es[i].mode == "40000" {
			a += "/"
		}
		if es[j].mode == "40000" {
			b += "/"
		}
		return a < b
	})
	var body bytes.Buffer
	for _, e := range es {
		raw, _ := hex.DecodeString(e.id)
		body.WriteString(e.mode + " " + e.name + "\x00")
		body.Write(raw)
	}
	return s.write("tree", body.Bytes())
}

func (s objStore) commit(tree string, parents []string, msg string) string {
	var b strings.Builder
	fmt.Fprintf(&b, "tree %s\n", tree)
	for _, p := range parents {
		fmt.Fprintf(&b, "parent %s\n", p)
	}
	b.WriteString("author A U Thor <author@example.com> 1700000000 +0000\ncommitter C O Mitter <committer@example.com> 1700000000 +0000\n\n" + msg + "\n")
	return s.write("commit", []byte(b.String()))
}

// node is an in-memory tree under construction. A child key is the raw entry
// name (it may contain '/', '\\', ".." ...: it is written verbatim as ONE entry).
type node struct {
	mode    string
	content []byte // blob bytes or symlink target
	id      string // gitlink commit id
	kids    []*kid
}

type kid struct {
	name string
	n    *node
}

func dir() *node { return &node{mode: "40000"} }

func (n *node) child(name string) *node {
	for _, k := range n.kids {
		if k.name == name && k.n.mode == "40000" {
			return k.n
		}
	}
	c := dir()
	n.kids = append(n.kids, &kid{name, c})
	return c
}

// put adds a leaf below the directory chain comps[:len-1]; every component is used verbatim.
// replace=false keeps an existing entry of the same name (=> duplicate entries).
func (n *node) put(comps []string, leaf *node, replace bool) {
	cur := n
	for _, c := range comps[:len(comps)-1] {
		cur = cur.child(c)
	}
	last := comps[len(comps)-1]
	if replace {
		for i, k := range cur.kids {
			if k.name == last {
				cur.kids[i].n = leaf
				return
			}
		}
	}
	cur.kids = append(cur.kids, &kid{last, leaf})
}

func (n *node) remove(name string) {
	var out []*kid
	for _, k := range n.kids {
		if k.name != name {
			out = append(out, k)
		}
	}
	n.kids = out
}

func (n *node) clone() *node {
	c := &node{mode: n.mode, content: n.content, id: n.id}
	for _, k := range n.kids {
		c.kids = append(c.kids, &kid{k.name, k.n.clone()})
	}
	return c
}

func file(s string) *node    { return &node{mode: "100644", content: []byte(s)} }
func exec(s string) *node    { return &node{mode: "100755", content: []byte(s)} }
func symlink(t string) *node { return &node{mode: "120000", content: []byte(t)} }
func gitlink(id string) *node {
	return &node{mode: "160000", id: id}
}

func (s objStore) store(n *node) string {
	switch n.mode {
	case "40000":
		var es []entry
		for _, k := range n.kids {
			es = append(es, entry{k.n.mode, k.name, s.store(k.n)})
		}
		return s.tree(es)
	case "160000":
		return n.id
	}
	return s.blob(n.content)
}
