// C26: worktree operations never touch paths outside the worktree or inside
// .git / submodule git dirs.
//
// Monitor (fsguard): every case lives in its own directory P; the worktree is
// P/mid/wt, sentinel files sit in P, P/mid and P/mid/outside. inotify watches
// (reads included) and before/after digests cover everything in P except the
// worktree; .git is digested before/after and compared against the set of
// paths the operation legitimately writes; a name-folding model reports
// materialised components that a case-insensitive/NTFS/HFS+ filesystem would
// resolve to ".git". Malicious trees are written as raw loose objects.
package main

import (
	"fmt"
	"os"
	"path/filepath"
	"sort"
	"strings"

	"github.com/go-git/go-billy/v6/osfs"
	git "github.com/go-git/go-git/v6"
	"github.com/go-git/go-git/v6/plumbing"
	"github.com/go-git/go-git/v6/plumbing/cache"
	"github.com/go-git/go-git/v6/plumbing/object"
	"github.com/go-git/go-git/v6/storage/filesystem"

	"verif/internal/gitx"
	"verif/internal/recfs"
	"verif/internal/vf"
	"verif/internal/wtlab"
)

func main() {
	vf.Main("C26", "exploration",
		"cases = (tree structure x hostile entry name x entry kind x symlink target) written as raw tree objects, or benign trees with pre-planted worktree symlinks (dir/leaf, relative/absolute, into the sentinel area or into .git), or hostile path arguments, or hostile submodule name/path; x operation (checkout, forced checkout, reset hard/merge/keep, pull over the file transport, cherry-pick, restore, clean, add/add-all/add-glob, remove/remove-glob, move, status, submodule init+update) x core.protectNTFS/protectHFS in {unset,true,false} x filesystem (BoundOS as PlainOpen builds it | wrapped); non-trivial = hostile structure/name/argument/planted symlink; shape = structure + name class + kind + operation + outcome; oracle = inotify + digests outside the worktree, digest of .git against the operation's legitimate write set, folding model for disguised .git names",
		run)
}

type caseT struct {
	I       int    `json:"i"`
	Op      string `json:"op"`
	Struct  string `json:"structure"`
	Name    string `json:"name"`
	Kind    string `json:"kind"`
	Target  string `json:"symlink_target"`
	Plant   string `json:"planted"`
	Arg     string `json:"arg"`
	Arg2    string `json:"arg2,omitempty"`
	NTFS    string `json:"protect_ntfs"`
	HFS     string `json:"protect_hfs"`
	Wrapped bool   `json:"wrapped_fs"`
}

var treeOps = []string{"checkout", "checkout-force", "checkout-hash", "reset-hard", "reset-merge", "reset-keep", "pull", "cherry-pick"}
var protects = []string{"", "true", "false"}

type hostile struct{ name, class string }

var compNames = []hostile{
	{".git", "dotgit-literal"}, {".GIT", "dotgit-case"}, {".Git", "dotgit-case"}, {".giT", "dotgit-case"},
	{"git~1", "dotgit-ntfs"}, {"GIT~1", "dotgit-ntfs"}, {".git ", "dotgit-ntfs"}, {".git.", "dotgit-ntfs"}, {".git. . ", "dotgit-ntfs"},
	{".git::$INDEX_ALLOCATION", "dotgit-ntfs"}, {".git:stream", "dotgit-ntfs"}, {"git~1 ", "dotgit-ntfs"}, {".GIT .", "dotgit-ntfs"},
	{".g\u200cit", "dotgit-hfs"}, {".gi\u200dt", "dotgit-hfs"}, {"\u200e.git", "dotgit-hfs"}, {".git\ufeff", "dotgit-hfs"}, {".G\u200cIT", "dotgit-hfs"},
	{"..", "dotdot"}, {".", "dot"}, {"", "empty"}, {"a\x01b", "control"}, {"CON", "reserved"}, {"aux.txt", "reserved"},
}

// names written verbatim as ONE tree entry although they contain separators; %ABS% = absolute sentinel dir
var slashNames = []hostile{
	{"../pwn", "slash-traversal"}, {"../../top-pwn", "slash-traversal"}, {"../outside/pwn", "slash-traversal"}, {"a/../../outside/pwn", "slash-traversal"},
	{"../outside/secret", "slash-traversal"}, {"n/../../outside/dir/x", "slash-traversal"},
	{".git/hooks/pwn", "slash-dotgit"}, {".git/config", "slash-dotgit"}, {"a/.git/config", "slash-dotgit"}, {".GIT/hooks/pwn", "slash-dotgit"}, {"a/../.git/hooks/pwn", "slash-dotgit"},
	{"..\\outside\\pwn", "backslash-traversal"}, {"a\\..\\..\\outside\\pwn", "backslash-traversal"}, {".git\\hooks\\pwn", "backslash-dotgit"},
	{"%ABS%/pwn", "absolute"}, {"/pwn-abs", "absolute"}, {"C:/pwn", "drive"}, {"C:pwn", "drive"}, {"\\\\srv\\share\\pwn", "unc"}, {"//srv/share/pwn", "unc"},
	{"a//b", "empty-component"}, {"trail/", "empty-component"}, {"/lead", "absolute"},
}

var linkTargets = []string{"../outside/dir", "%ABS%/dir", ".git", ".git/hooks", "..", "../outside"}

// deepVariant: a symlink planted as a NON-deepest leading component of tracked paths; the deeper
// intermediate directories exist inside the link target, so that a real directory is reached THROUGH the link.
type deepVariant struct {
	name, link, target string   // link path in the worktree, symlink target (%ABS% / %GIT% expanded)
	through            []string // tracked paths of commit 1 below the link (their counterparts exist in the link target)
	adds               []string // paths commit 2 adds below the link
}

var deepVariants = []deepVariant{
	{"dotgit-rel", "d", ".git", []string{"d/refs/heads/victim", "d/hooks/victim-hook", "d/info/victim", "d/objects/info/victim", "d/logs/refs/victim"}, []string{"d/hooks/pwn-hook", "d/refs/heads/pwn"}},
	{"dotgit-abs", "d", "%GIT%", []string{"d/refs/heads/victim", "d/hooks/victim-hook", "d/info/victim"}, []string{"d/hooks/pwn-hook", "d/refs/heads/pwn"}},
	{"dotgit-refs-rel", "d", ".git/refs", []string{"d/heads/victim", "d/victimdir/v"}, []string{"d/heads/pwn"}},
	{"modules-rel", "d", ".git/modules/sub", []string{"d/refs/heads/victim", "d/hooks/victim-hook"}, []string{"d/hooks/pwn-hook"}},
	{"outside-rel", "d", "../outside", []string{"d/dir/inner/y", "d/dir/x"}, []string{"d/dir/inner/pwn"}},
	{"outside-abs", "d", "%ABS%", []string{"d/dir/inner/y", "d/dir/x"}, []string{"d/dir/inner/pwn"}},
	{"outside-dir-rel", "d", "../outside/dir", []string{"d/inner/y"}, []string{"d/inner/pwn"}},
	{"nested-dotgit-rel", "a/l", "../.git", []string{"a/l/refs/heads/victim", "a/l/hooks/victim-hook"}, []string{"a/l/hooks/pwn-hook"}},
}

func deepOf(name string) *deepVariant {
	for i := range deepVariants {
		if deepVariants[i].name == name {
			return &deepVariants[i]
		}
	}
	return nil
}

func plan(c *vf.Ctx) []caseT {
	var cases []caseT
	n := 0
	rot := func(xs []string) string { n++; return xs[n%len(xs)] }
	mult := c.N(1, 12)
	for m := 0; m < mult; m++ {
		r := c.Rand("plan", m)
		pick := func(xs []string) string { return xs[r.Intn(len(xs))] }
		// 1. hostile component names in four positions / kinds
		for _, st := range []string{"root-entry", "nested-entry", "deep-entry", "subtree", "nested-subtree"} {
			for _, h := range compNames {
				kind := "blob"
				if st == "root-entry" || st == "nested-entry" || st == "deep-entry" {
					kind = []string{"blob", "exec", "symlink", "blob"}[r.Intn(4)]
				}
				cases = append(cases, caseT{Op: rot(treeOps), Struct: st, Name: h.name, Kind: kind, Target: pick(linkTargets), NTFS: pick(protects), HFS: pick(protects)})
			}
		}
		// 2. single entries whose name contains separators
		for _, h := range slashNames {
			for _, kind := range []string{"blob", "symlink"} {
				cases = append(cases, caseT{Op: rot(treeOps), Struct: "slash-name", Name: h.name, Kind: kind, Target: pick(linkTargets), NTFS: pick(protects), HFS: pick(protects)})
			}
		}
		// 3. symlink / directory interplay
		for _, st := range []string{"symlink-swap", "dup-entry", "dup-entry-rev", "symlink-then-child"} {
			for _, t := range linkTargets {
				for k := 0; k < 2; k++ {
					cases = append(cases, caseT{Op: rot(treeOps), Struct: st, Name: "s", Kind: "symlink", Target: t, NTFS: pick(protects), HFS: pick(protects)})
				}
			}
		}
		// 4. .gitmodules as a symlink (and its disguises), read by status / submodule / checkout
		for _, nm := range []string{".gitmodules", ".GITMODULES", ".gitmodules ", ".gitmodules.", ".gitmodules::$DATA", "GITMOD~1", ".gitmod\u200cules"} {
			for _, op := range []string{"checkout", "reset-hard", "submodule", "status-after-checkout"} {
				cases = append(cases, caseT{Op: op, Struct: "gitmodules-symlink", Name: nm, Kind: "symlink", Target: "../outside/secret", NTFS: pick(protects), HFS: pick(protects)})
			}
		}
		// 5. benign trees over pre-planted symlinks
		for _, pl := range []string{"dir-rel", "dir-abs", "leaf-rel", "leaf-abs", "dir-dotgit", "leaf-dotgit", "dir-dotgit-hooks", "tracked-dir-rel", "tracked-leaf-rel", "tracked-dir-dotgit"} {
			for _, op := range treeOps {
				cases = append(cases, caseT{Op: op, Struct: "planted", Plant: pl, NTFS: pick(protects), HFS: pick(protects)})
			}
		}
		// 5b. symlink planted as 2nd / 3rd-from-last component, intermediates existing in the link target
		for _, dv := range deepVariants {
			for _, op := range []string{"checkout-force", "reset-hard", "checkout-hash", "cherry-pick", "reset-keep", "checkout", "clean", "add-all", "status", "commit-all"} {
				cases = append(cases, caseT{Op: op, Struct: "deep-planted", Plant: dv.name, NTFS: pick(protects), HFS: pick(protects)})
			}
			for _, op := range []string{"add", "remove", "restore", "move-from"} {
				for _, a := range dv.through {
					cases = append(cases, caseT{Op: op, Struct: "deep-planted", Plant: dv.name, Arg: a, NTFS: pick(protects), HFS: pick(protects)})
				}
			}
			for _, a := range dv.adds {
				cases = append(cases, caseT{Op: "move-to", Struct: "deep-planted", Plant: dv.name, Arg: a, NTFS: pick(protects), HFS: pick(protects)})
			}
			cases = append(cases, caseT{Op: "remove-glob", Struct: "deep-planted", Plant: dv.name, Arg: dv.link + "/*/*/*", NTFS: pick(protects), HFS: pick(protects)})
			cases = append(cases, caseT{Op: "add-glob", Struct: "deep-planted", Plant: dv.name, Arg: dv.link + "/*/*", NTFS: pick(protects), HFS: pick(protects)})
		}
		// 6. path-argument operations: hostile arguments and arguments that run through planted symlinks
		args := []string{"../outside/secret", "../../top", "%ABS%/secret", ".git/config", ".git/hooks/pre-commit", "d/x", "f", "u/inner/y", "u/x", "a/../../outside/secret", "a/../.git/config", ".GIT/config", "d", "u", "ul",
			"..", ".", "", "a/.git/x", "..\\outside\\secret", "C:/x", ".git/pwned", ".git/hooks/pwned", ".git/x"}
		globs := []string{"*", "d/*", "u/*", "../outside/*", ".git/*", "../*", "%ABS%/*", "*/x", "u/inner/*"}
		for _, a := range args {
			for _, op := range []string{"add", "remove", "restore", "move-from", "move-to"} {
				cases = append(cases, caseT{Op: op, Struct: "path-arg", Plant: pick([]string{"tracked-dir-rel", "tracked-dir-abs", "tracked-leaf-rel", "tracked-dir-dotgit"}), Arg: a, NTFS: pick(protects), HFS: pick(protects)})
			}
		}
		for _, gl := range globs {
			for _, op := range []string{"add-glob", "remove-glob"} {
				cases = append(cases, caseT{Op: op, Struct: "path-arg", Plant: pick([]string{"tracked-dir-rel", "tracked-dir-abs", "tracked-leaf-rel"}), Arg: gl, NTFS: pick(protects), HFS: pick(protects)})
			}
		}
		for _, pl := range []string{"tracked-dir-rel", "tracked-dir-abs", "tracked-leaf-rel", "tracked-leaf-abs", "tracked-dir-dotgit", "dir-rel", "leaf-rel"} {
			for _, op := range []string{"add-all", "clean", "status", "commit-all"} {
				cases = append(cases, caseT{Op: op, Struct: "planted", Plant: pl, NTFS: pick(protects), HFS: pick(protects)})
			}
		}
		// 7. submodules with hostile name / path
		subNames := []string{"sub", "../../../outside/pwnmod", "../pwnmod", "a/../../../hooks", "..", ".git", "sub/../../..", "%ABS%/pwnmod", "..\\..\\pwn", "sub\x01", "/abs-mod"}
		subPaths := []string{"sub", "../outside/subwt", ".git/hooks", ".git", "a/../../outside/subwt", "%ABS%/subwt", "sub/.git", "u", "..", ".GIT/x"}
		for _, sn := range subNames {
			cases = append(cases, caseT{Op: "submodule", Struct: "submodule-name", Name: sn, Arg: "sub", NTFS: pick(protects), HFS: pick(protects)})
		}
		for _, sp := range subPaths {
			cases = append(cases, caseT{Op: "submodule", Struct: "submodule-path", Name: "sub", Arg: sp, Plant: "dir-rel", NTFS: pick(protects), HFS: pick(protects)})
		}
		// 8. benign baselines (validate the allow-lists; every operation)
		for _, op := range append(append([]string{}, treeOps...), "add", "remove", "restore", "move-from", "add-glob", "remove-glob", "add-all", "clean", "status", "commit-all", "submodule") {
			cases = append(cases, caseT{Op: op, Struct: "benign", Arg: map[string]string{"add": "a/x", "remove": "a/x", "restore": "a/x", "move-from": "a/x", "add-glob": "a/*", "remove-glob": "a/*", "submodule": "sub"}[op], Name: "sub", NTFS: pick(protects), HFS: pick(protects)})
		}
	}
	for i := range cases {
		cases[i].I = i
		cases[i].Wrapped = i%5 == 4
	}
	return cases
}

func nameClass(k caseT) string {
	switch k.Struct {
	case "benign":
		return "benign"
	case "planted", "path-arg", "deep-planted":
		return "planted:" + k.Plant
	case "gitmodules-symlink":
		return "gitmodules"
	case "submodule-name", "submodule-path":
		return "submodule"
	case "symlink-swap", "dup-entry", "dup-entry-rev", "symlink-then-child":
		return "symlink:" + k.Target
	}
	for _, h := range compNames {
		if h.name == k.Name {
			return h.class
		}
	}
	for _, h := range slashNames {
		if h.name == k.Name {
			return h.class
		}
	}
	switch k.Struct {
	case "benign":
		return "benign"
	case "planted", "path-arg":
		return "planted:" + k.Plant
	case "gitmodules-symlink":
		return "gitmodules"
	case "submodule-name", "submodule-path":
		return "submodule"
	}
	return "symlink:" + k.Target
}

// ---------------------------------------------------------------- case construction

func abs(P, s string) string {
	return strings.ReplaceAll(s, "%ABS%", filepath.Join(P, "mid", "outside"))
}

func leafFor(k caseT, P string) *node {
	switch k.Kind {
	case "exec":
		return exec("#!/bin/sh\necho pwned\n")
	case "symlink":
		return symlink(abs(P, k.Target))
	}
	return file("hostile payload\n")
}

func mustWrite(p, s string) {
	os.MkdirAll(filepath.Dir(p), 0o755)
	os.WriteFile(p, []byte(s), 0o644)
}

type built struct {
	P, wt       string
	c1, c2, sub string
}

func build(c *vf.Ctx, tmpl string, k caseT) (*built, error) {
	P := filepath.Join(c.Scratch, fmt.Sprintf("c%d", k.I))
	b := &built{P: P, wt: filepath.Join(P, "mid", "wt")}
	os.MkdirAll(filepath.Join(P, "mid"), 0o755)
	mustWrite(filepath.Join(P, "top"), "top sentinel\n")
	mustWrite(filepath.Join(P, "mid", "sibling"), "sibling sentinel\n")
	out := filepath.Join(P, "mid", "outside")
	mustWrite(filepath.Join(out, "secret"), "[submodule \"leak\"]\n\tpath = leak\n\turl = https://example.invalid/secret\n")
	mustWrite(filepath.Join(out, "dir", "x"), "outside x\n")
	mustWrite(filepath.Join(out, "dir", "inner", "y"), "outside y\n")
	os.MkdirAll(filepath.Join(out, "hooks"), 0o755)
	if err := wtlab.CopyTree(tmpl, b.wt); err != nil {
		return nil, err
	}
	gitdir := filepath.Join(b.wt, ".git")
	st := objStore{gitdir}
	// submodule source repository (benign)
	subsrc := filepath.Join(P, "mid", "lab", "subsrc")
	if strings.HasPrefix(k.Op, "submodule") || k.Struct == "benign" && k.Op == "submodule" {
		if err := wtlab.CopyTree(tmpl, subsrc); err != nil {
			return nil, err
		}
		ss := objStore{filepath.Join(subsrc, ".git")}
		t := dir()
		t.put([]string{"subfile"}, file("submodule content\n"), true)
		b.sub = ss.commit(ss.store(t), nil, "sub")
		mustWrite(filepath.Join(subsrc, ".git", "refs", "heads", "master"), b.sub+"\n")
	}
	// c1: benign base
	t1 := dir()
	t1.put([]string{"f"}, file("f v1\n"), true)
	t1.put([]string{"a", "x"}, file("ax v1\n"), true)
	t1.put([]string{"a", "y"}, file("ay v1\n"), true)
	t1.put([]string{"d", "x"}, file("dx v1\n"), true)
	t1.put([]string{"keep"}, file("keep\n"), true)
	if k.Struct == "symlink-swap" {
		t1.put([]string{"s"}, symlink(abs(P, k.Target)), true)
	}
	// c2: benign evolution
	t2 := t1.clone()
	t2.put([]string{"f"}, file("f v2 longer\n"), true)
	t2.put([]string{"d", "x"}, file("dx v2 longer\n"), true)
	t2.put([]string{"n", "x"}, file("nx\n"), true)
	t2.put([]string{"nf"}, file("nf\n"), true)
	switch k.Struct {
	case "root-entry":
		t2.put([]string{k.Name}, leafFor(k, P), false)
	case "nested-entry":
		t2.put([]string{"a", k.Name}, leafFor(k, P), false)
	case "deep-entry":
		t2.put([]string{"n", "m", k.Name}, leafFor(k, P), false)
	case "subtree":
		t2.put([]string{k.Name, "config"}, file("[core]\n\tfsmonitor = echo pwned\n"), false)
		t2.put([]string{k.Name, "hooks", "pre-commit"}, exec("#!/bin/sh\necho pwned\n"), false)
		t2.put([]string{k.Name, "pwn"}, file("pwn\n"), false)
	case "nested-subtree":
		t2.put([]string{"a", k.Name, "config"}, file("[core]\n\tfsmonitor = echo pwned\n"), false)
		t2.put([]string{"a", k.Name, "hooks", "pre-commit"}, exec("#!/bin/sh\necho pwned\n"), false)
	case "slash-name":
		t2.put([]string{abs(P, k.Name)}, leafFor(k, P), false)
	case "symlink-swap":
		t2.remove("s")
		t2.put([]string{"s", "pwn"}, file("pwn through swapped symlink\n"), false)
		t2.put([]string{"s", "pre-commit"}, exec("#!/bin/sh\necho pwned\n"), false)
	case "dup-entry", "dup-entry-rev":
		sd := dir()
		sd.put([]string{"pwn"}, file("pwn via duplicate entry\n"), true)
		sd.put([]string{"pre-commit"}, exec("#!/bin/sh\necho pwned\n"), true)
		if k.Struct == "dup-entry" {
			t2.kids = append(t2.kids, &kid{"s", symlink(abs(P, k.Target))}, &kid{"s", sd})
		} else {
			t2.kids = append(t2.kids, &kid{"s", sd}, &kid{"s", symlink(abs(P, k.Target))})
		}
	case "symlink-then-child":
		t2.put([]string{"s"}, symlink(abs(P, k.Target)), true)
		t2.kids = append(t2.kids, &kid{"s/pwn", file("pwn via child name\n")})
	case "gitmodules-symlink":
		t2.put([]string{k.Name}, symlink(abs(P, k.Target)), true)
		if b.sub != "" {
			t2.put([]string{"leak"}, gitlink(b.sub), true)
		}
	case "submodule-name", "submodule-path", "benign":
		if k.Op == "submodule" {
			gm := fmt.Sprintf("[submodule %q]\n\tpath = %s\n\turl = %s\n", abs(P, k.Name), abs(P, k.Arg), subsrc)
			t1.put([]string{".gitmodules"}, file(gm), true)
			t2.put([]string{".gitmodules"}, file(gm), true)
			comps := strings.Split(abs(P, k.Arg), "/")
			clean := true
			for _, cmp := range comps {
				if cmp == "" || cmp == "." || cmp == ".." || strings.EqualFold(cmp, ".git") {
					clean = false
				}
			}
			if clean {
				t1.put(comps, gitlink(b.sub), true)
				t2.put(comps, gitlink(b.sub), true)
			} else {
				// the gitlink entry cannot be expressed as nested trees: store it as one raw entry
				t1.kids = append(t1.kids, &kid{abs(P, k.Arg), gitlink(b.sub)})
				t2.kids = append(t2.kids, &kid{abs(P, k.Arg), gitlink(b.sub)})
			}
		}
	}
	if dv := deepOf(k.Plant); k.Struct == "deep-planted" && dv != nil {
		for _, pth := range dv.through {
			t1.put(strings.Split(pth, "/"), file("tracked "+pth+"\n"), true)
		}
		t2 = t1.clone()
		t2.put([]string{"f"}, file("f v2 longer\n"), true)
		for i, pth := range dv.through { // commit 2 deletes the first, modifies the others
			comps := strings.Split(pth, "/")
			if i == 0 {
				cur := t2
				for _, cmp := range comps[:len(comps)-1] {
					cur = cur.child(cmp)
				}
				cur.remove(comps[len(comps)-1])
			} else {
				t2.put(comps, file("tracked "+pth+" v2 longer\n"), true)
			}
		}
		for _, pth := range dv.adds {
			t2.put(strings.Split(pth, "/"), exec("#!/bin/sh\necho pwned\n"), true)
		}
	}
	b.c1 = st.commit(st.store(t1), nil, "c1")
	b.c2 = st.commit(st.store(t2), []string{b.c1}, "c2")
	mustWrite(filepath.Join(gitdir, "refs", "heads", "master"), b.c1+"\n")
	mustWrite(filepath.Join(gitdir, "refs", "heads", "evil"), b.c2+"\n")
	mustWrite(filepath.Join(gitdir, "HEAD"), "ref: refs/heads/master\n")
	mustWrite(filepath.Join(gitdir, "hooks", "pre-commit"), "#!/bin/sh\nexit 0\n")
	mustWrite(filepath.Join(gitdir, "hooks", "x"), "#!/bin/sh\nexit 0\n") // reachable as d/x through a planted d -> .git/hooks
	mustWrite(filepath.Join(gitdir, "x"), "victim\n")                     // reachable as u/x through a planted u -> .git
	// victims below existing intermediate directories of .git (and of a submodule git dir), reachable through a
	// symlink planted higher up: d -> .git makes d/refs/heads/victim a path whose parents are real directories
	mustWrite(filepath.Join(gitdir, "refs", "heads", "victim"), b.c1+"\n")
	mustWrite(filepath.Join(gitdir, "refs", "victimdir", "v"), b.c1+"\n")
	mustWrite(filepath.Join(gitdir, "hooks", "victim-hook"), "#!/bin/sh\nexit 0\n")
	mustWrite(filepath.Join(gitdir, "info", "victim"), "victim\n")
	mustWrite(filepath.Join(gitdir, "objects", "info", "victim"), "victim\n")
	mustWrite(filepath.Join(gitdir, "logs", "refs", "victim"), "victim\n")
	mustWrite(filepath.Join(gitdir, "modules", "sub", "HEAD"), "ref: refs/heads/master\n")
	mustWrite(filepath.Join(gitdir, "modules", "sub", "refs", "heads", "victim"), b.c1+"\n")
	mustWrite(filepath.Join(gitdir, "modules", "sub", "hooks", "victim-hook"), "#!/bin/sh\nexit 0\n")
	cfg := "[core]\n\trepositoryformatversion = 0\n\tfilemode = true\n\tbare = false\n"
	if k.NTFS != "" {
		cfg += "\tprotectNTFS = " + k.NTFS + "\n"
	}
	if k.HFS != "" {
		cfg += "\tprotectHFS = " + k.HFS + "\n"
	}
	if k.Op == "pull" {
		remote := filepath.Join(P, "mid", "lab", "remote")
		cfg += fmt.Sprintf("[remote \"origin\"]\n\turl = %s\n\tfetch = +refs/heads/*:refs/remotes/origin/*\n[branch \"master\"]\n\tremote = origin\n\tmerge = refs/heads/master\n", remote)
		mustWrite(filepath.Join(gitdir, "config"), cfg)
		if err := wtlab.CopyTree(gitdir, filepath.Join(remote, ".git")); err != nil {
			return nil, err
		}
		mustWrite(filepath.Join(remote, ".git", "refs", "heads", "master"), b.c2+"\n")
		os.Remove(filepath.Join(remote, ".git", "refs", "heads", "evil"))
		os.Remove(filepath.Join(gitdir, "refs", "heads", "evil"))
	} else {
		mustWrite(filepath.Join(gitdir, "config"), cfg)
	}
	return b, nil
}

func open(wt string, wrapped bool) (*git.Repository, *recfs.Rec, error) {
	if !wrapped {
		r, err := git.PlainOpen(wt)
		return r, nil, err
	}
	rec := recfs.New()
	root := recfs.Wrap(osfs.New(wt), rec)
	r, err := git.Open(filesystem.NewStorage(osfs.New(filepath.Join(wt, ".git")), cache.NewObjectLRUDefault()), root)
	return r, rec, err
}

// plant replaces / adds symlinks in the checked-out worktree.
func plant(b *built, how string) {
	out := filepath.Join(b.P, "mid", "outside")
	ln := func(target, name string) {
		p := filepath.Join(b.wt, name)
		os.RemoveAll(p)
		os.Symlink(target, p)
	}
	if dv := deepOf(how); dv != nil {
		t := strings.ReplaceAll(strings.ReplaceAll(dv.target, "%ABS%", out), "%GIT%", filepath.Join(b.wt, ".git"))
		ln(t, dv.link)
		return
	}
	switch how {
	case "dir-rel": // untracked paths that c2 adds
		ln("../outside/dir", "n")
		ln("../outside/dir", "u")
	case "dir-abs":
		ln(filepath.Join(out, "dir"), "n")
		ln(filepath.Join(out, "dir"), "u")
	case "leaf-rel":
		ln("../outside/secret", "nf")
		ln("../outside/secret", "ul")
	case "leaf-abs":
		ln(filepath.Join(out, "secret"), "nf")
	case "dir-dotgit":
		ln(".git", "n")
	case "dir-dotgit-hooks":
		ln(".git/hooks", "n")
	case "leaf-dotgit":
		ln(".git/config", "nf")
	case "tracked-dir-rel": // tracked paths: d/x and f exist in c1 and change in c2
		ln("../outside/dir", "d")
		ln("../outside/dir", "u")
		ln("../outside/secret", "ul")
	case "tracked-dir-abs":
		ln(filepath.Join(out, "dir"), "d")
		ln(filepath.Join(out, "dir"), "u")
	case "tracked-leaf-rel":
		ln("../outside/secret", "f")
		ln("../outside/dir", "u")
	case "tracked-leaf-abs":
		ln(filepath.Join(out, "secret"), "f")
	case "tracked-dir-dotgit":
		ln(".git/hooks", "d")
		ln(".git", "u")
	}
}

func doOp(repo *git.Repository, b *built, k caseT) error {
	w, err := repo.Worktree()
	if err != nil {
		return err
	}
	c2 := plumbing.NewHash(b.c2)
	arg := abs(b.P, k.Arg)
	sig := &object.Signature{Name: "A U Thor", Email: "author@example.com"}
	switch k.Op {
	case "checkout":
		return w.Checkout(&git.CheckoutOptions{Branch: "refs/heads/evil"})
	case "checkout-force":
		return w.Checkout(&git.CheckoutOptions{Branch: "refs/heads/evil", Force: true})
	case "checkout-hash":
		return w.Checkout(&git.CheckoutOptions{Hash: c2, Force: k.I%2 == 0})
	case "reset-hard":
		return w.Reset(&git.ResetOptions{Commit: c2, Mode: git.HardReset})
	case "reset-merge":
		return w.Reset(&git.ResetOptions{Commit: c2, Mode: git.MergeReset})
	case "reset-keep":
		return w.Reset(&git.ResetOptions{Commit: c2, Mode: git.KeepReset})
	case "pull":
		return w.Pull(&git.PullOptions{RemoteName: "origin"})
	case "cherry-pick":
		co, err := repo.CommitObject(c2)
		if err != nil {
			return err
		}
		return w.CherryPick(&git.CommitOptions{Author: sig, Committer: sig}, git.TheirsMergeStrategy, co)
	case "status-after-checkout":
		w.Checkout(&git.CheckoutOptions{Branch: "refs/heads/evil", Force: true})
		_, err := w.Status()
		if err != nil {
			return err
		}
		_, err = w.Submodules()
		return err
	case "restore":
		return w.Restore(&git.RestoreOptions{Staged: true, Worktree: true, Files: []string{arg}})
	case "clean":
		return w.Clean(&git.CleanOptions{Dir: true})
	case "add":
		_, err := w.Add(arg)
		return err
	case "add-all":
		return w.AddWithOptions(&git.AddOptions{All: true})
	case "add-glob":
		return w.AddGlob(arg)
	case "remove":
		_, err := w.Remove(arg)
		return err
	case "remove-glob":
		return w.RemoveGlob(arg)
	case "move-from":
		_, err := w.Move(arg, "moved-here")
		return err
	case "move-to":
		_, err := w.Move("keep", arg)
		return err
	case "status":
		_, err := w.Status()
		return err
	case "commit-all":
		_, err := w.Commit("c\n", &git.CommitOptions{All: true, Author: sig})
		return err
	case "submodule":
		if k.Struct == "gitmodules-symlink" {
			w.Checkout(&git.CheckoutOptions{Branch: "refs/heads/evil", Force: true})
		}
		subs, err := w.Submodules()
		if err != nil {
			return err
		}
		if err := subs.Init(); err != nil {
			return err
		}
		return subs.Update(&git.SubmoduleUpdateOptions{Init: true})
	}
	return fmt.Errorf("unknown op %q", k.Op)
}

func outcome(err error) string {
	if err == nil {
		return "proceeded"
	}
	s := err.Error()
	switch {
	case strings.Contains(s, "invalid path"), strings.Contains(s, "symlink"), strings.Contains(s, "escape"):
		return "refused-path"
	case strings.Contains(s, "unstaged") || strings.Contains(s, "local changes"):
		return "refused-dirty"
	}
	return "error"
}

func runCase(c *vf.Ctx, tmpl string, k caseT) {
	b, err := build(c, tmpl, k)
	if err != nil {
		c.Broken("build case %d: %v", k.I, err)
		return
	}
	defer func() {
		filepath.Walk(b.P, func(p string, info os.FileInfo, err error) error {
			if err == nil && info.IsDir() {
				os.Chmod(p, 0o755)
			}
			return nil
		})
		os.RemoveAll(b.P)
	}()
	// materialise c1 with go-git itself (benign tree) before any observer is armed
	repo, _, err := open(b.wt, false)
	if err != nil {
		c.Broken("case %d: open for setup: %v", k.I, err)
		return
	}
	w, err := repo.Worktree()
	if err == nil {
		err = w.Reset(&git.ResetOptions{Commit: plumbing.NewHash(b.c1), Mode: git.HardReset})
	}
	repo.Close()
	if err != nil {
		if k.Op == "submodule" && k.Struct != "benign" {
			// a hostile .gitmodules / gitlink path already stops the set-up checkout of c1: that is a refusal
			c.Eval(vf.ShapeHash(k.Struct, nameClass(k), k.Op, "refused-at-setup"), true)
			c.Count("refused_at_setup", 1)
			return
		}
		c.Broken("case %d (%s %s): setting up commit 1 failed: %v", k.I, k.Struct, k.Op, err)
		return
	}
	if _, err := os.Stat(filepath.Join(b.wt, "a", "x")); err != nil {
		c.Broken("case %d: set-up checkout did not materialise a/x", k.I)
		return
	}
	if k.Plant != "" {
		plant(b, k.Plant)
	}
	g, err := arm(b.P)
	if err != nil {
		c.Broken("inotify: %v", err)
		return
	}
	repo, rec, err := open(b.wt, k.Wrapped)
	if err != nil {
		g.w.Close()
		c.Broken("case %d: open: %v", k.I, err)
		return
	}
	if rec != nil {
		rec.Record = true
	}
	var opErr error
	pv, stack := vf.Catch(func() { opErr = doOp(repo, b, k) })
	repo.Close()
	viol := g.finish(k.Op)
	nc := nameClass(k)
	if pv != nil {
		c.Fail("panic:"+k.Op+":"+k.Struct+":"+nc, fmt.Sprintf("%s on %s/%q panicked: %v\n%s", k.Op, k.Struct, k.Name, pv, stack), k)
	}
	oc := outcome(opErr)
	if os.Getenv("VERIF_DEBUG_LOSS") != "" {
		fmt.Printf("CASE %d op=%s struct=%s name=%q kind=%s target=%q plant=%s arg=%q ntfs=%s hfs=%s wrapped=%v -> %s err=%v viol=%d\n", k.I, k.Op, k.Struct, k.Name, k.Kind, k.Target, k.Plant, k.Arg, k.NTFS, k.HFS, k.Wrapped, oc, opErr, len(viol))
	}
	c.Eval(vf.ShapeHash(k.Struct, nc, k.Kind, k.Op, oc), k.Struct != "benign")
	c.Count("cases", 1)
	c.Seen("ops", k.Op)
	c.Seen("structures", k.Struct)
	c.Seen("name_classes", nc)
	c.Seen("outcomes", k.Op+"="+oc)
	c.Seen("protect_settings", "ntfs="+k.NTFS+",hfs="+k.HFS)
	if opErr == nil {
		c.Count("ops_proceeded", 1)
	} else {
		c.Count("ops_refused_or_failed", 1)
	}
	if k.I%131 == 0 {
		c.Sample(map[string]any{"case": k, "result": fmt.Sprint(opErr), "violations": len(viol)})
	}
	// worktree-filesystem op log: nothing may go through ".git/" of the worktree filesystem
	if rec != nil {
		for _, o := range rec.Ops() {
			c.Count("wrapped_fs_calls", 1)
			for _, p := range []string{o.Path, o.Path2} {
				if o.Kind == "symlink" && p == o.Path2 {
					continue
				}
				if strings.HasPrefix(p, ".git/") {
					viol = append(viol, violation{"dotgit-via-worktree-fs", gitArea(strings.TrimPrefix(p, ".git/")), o.String()})
				}
			}
		}
	}
	seen := map[string]bool{}
	for _, v := range viol {
		key := k.Op + ":" + k.Struct + ":" + nc + ":" + v.what
		if v.what == "dotgit-write" || v.what == "dotgit-via-worktree-fs" {
			key += ":" + v.area
		}
		if seen[key] {
			continue
		}
		seen[key] = true
		var all []string
		for _, x := range viol {
			all = append(all, x.what+"["+x.area+"] "+x.msg)
		}
		sort.Strings(all)
		if len(all) > 12 {
			all = all[:12]
		}
		c.Fail(key, fmt.Sprintf("%s on structure %s name %q (class %s, kind %s, target %q, planted %q, arg %q, protectNTFS=%q protectHFS=%q) returned %v and left a footprint: %s",
			k.Op, k.Struct, k.Name, nc, k.Kind, k.Target, k.Plant, k.Arg, k.NTFS, k.HFS, opErr, strings.Join(all, "; ")),
			map[string]any{"case": k, "result": fmt.Sprint(opErr), "violations": all})
	}
	// folding model: components that would resolve to .git on a folding filesystem
	for rel, how := range disguisedDotGit(b.wt) {
		active := how == "case" || (how == "ntfs" && k.NTFS != "false") || (how == "hfs" && k.HFS == "true")
		switch {
		case how == "literal":
			if filepath.Base(rel) == ".git" && k.Op == "submodule" {
				continue // gitlink pointer file of a submodule worktree
			}
			c.Count("nested_dotgit_materialised", 1)
			c.Seen("nested_dotgit_paths", rel)
		case active:
			c.Fail(k.Op+":"+k.Struct+":"+nc+":disguised-dotgit-materialised:"+how,
				fmt.Sprintf("%s materialised %q in the worktree; with protectNTFS=%q protectHFS=%q this component (%s folding) resolves to .git on a folding filesystem", k.Op, rel, k.NTFS, k.HFS, how),
				map[string]any{"case": k, "path": rel, "folding": how})
		default:
			c.Count("disguise_materialised_with_protection_off", 1)
		}
	}
}

func run(c *vf.Ctx) {
	g := gitx.New(c.Scratch)
	os.Setenv("HOME", g.Home)
	os.Setenv("XDG_CONFIG_HOME", g.Home)
	tmpl := filepath.Join(c.Scratch, "tmpl")
	c.Must(g.Init(tmpl, false, "sha1"), "git init template")
	os.RemoveAll(filepath.Join(tmpl, ".git", "hooks"))

	// ---- self-tests of the machinery
	{
		// (1) the raw object writer produces objects git accepts
		d := filepath.Join(c.Scratch, "selfobj")
		c.Must(wtlab.CopyTree(tmpl, d), "copy")
		st := objStore{filepath.Join(d, ".git")}
		t := dir()
		t.put([]string{"a", "x"}, file("ax\n"), true)
		t.put([]string{"l"}, symlink("a/x"), true)
		t.put([]string{"e"}, exec("#!/bin/sh\n"), true)
		id := st.commit(st.store(t), nil, "self")
		mustWrite(filepath.Join(d, ".git", "refs", "heads", "master"), id+"\n")
		if res := g.Run(d, "fsck", "--strict"); !res.OK() {
			c.Broken("object writer self-test: git fsck: %s", res)
			return
		}
		out, err := g.MustOut(d, "ls-tree", "-r", "--name-only", "master")
		if err != nil || out != "a/x\ne\nl" {
			c.Broken("object writer self-test: ls-tree = %q, %v", out, err)
			return
		}
		c.Count("git_confirmations", 2)
		// (2) the observers see a deliberate escape
		k := caseT{I: -1, Op: "checkout", Struct: "benign"}
		b, err := build(c, tmpl, caseT{I: 1 << 30, Op: "checkout", Struct: "benign"})
		c.Must(err, "build self-test case")
		gd, err := arm(b.P)
		c.Must(err, "inotify")
		os.ReadFile(filepath.Join(b.P, "mid", "outside", "secret"))
		os.WriteFile(filepath.Join(b.P, "mid", "outside", "dir", "new"), []byte("x"), 0o644)
		os.WriteFile(filepath.Join(b.P, "top"), []byte("changed"), 0o644)
		mustWrite(filepath.Join(b.wt, ".git", "hooks", "post-checkout"), "#!/bin/sh\n")
		mustWrite(filepath.Join(b.wt, ".git", "refs", "heads", "ok"), "x\n")
		kinds := map[string]bool{}
		for _, v := range gd.finish(k.Op) {
			kinds[v.what+"/"+v.area] = true
		}
		for _, want := range []string{"outside-read/inotify", "outside-write/inotify", "outside-write/digest", "dotgit-write/hooks"} {
			if !kinds[want] {
				c.Broken("observer self-test: a deliberate %s was not reported (got %v)", want, kinds)
				return
			}
			c.Count("observer_selftest_detections", 1)
		}
		if kinds["dotgit-write/other"] {
			c.Broken("observer self-test: a write to refs/heads was reported as a violation")
			return
		}
		mustWrite(filepath.Join(b.wt, ".git ", "x"), "x")
		mustWrite(filepath.Join(b.wt, "a", ".g\u200cit", "x"), "x")
		if f := disguisedDotGit(b.wt); f[".git "] != "ntfs" || f["a/.g\u200cit"] != "hfs" {
			c.Broken("folding model self-test failed: %v", f)
			return
		}
		c.Count("observer_selftest_detections", 2)
		os.RemoveAll(b.P)
	}

	cases := plan(c)
	if f := os.Getenv("VERIF_DEBUG_FILTER"); f != "" { // development aid only
		var keep []caseT
		for _, k := range cases {
			if strings.Contains(k.Op+"|"+k.Struct+"|"+k.Plant, f) {
				keep = append(keep, k)
			}
		}
		cases = keep
	}
	vf.Parallel(len(cases), 8, func(i int) { runCase(c, tmpl, cases[i]) })

	c.Extra("git_invocations", gitx.Calls.Load())
	c.Floor("cases", c.Counter("cases"), c.N(450, 5500))
	c.Floor("operations that proceeded", c.Counter("ops_proceeded"), c.N(100, 1200))
	c.Floor("operations refused or failed", c.Counter("ops_refused_or_failed"), c.N(200, 2400))
	c.Floor("observer self-test detections", c.Counter("observer_selftest_detections"), 6)
	c.Floor("operation kinds", c.SeenCount("ops"), 20)
	c.Floor("structures", c.SeenCount("structures"), 14)
	c.Floor("name classes", c.SeenCount("name_classes"), 25)
	c.Assume("Linux host with a case-sensitive filesystem: NTFS/HFS+/case disguises of .git cannot physically reach .git here; for them a folding model reports materialised components that would resolve to .git when the matching protection is on (core.protectNTFS unset or true; core.protectHFS true; case variants always)")
	c.Assume("legitimate .git writes per operation: HEAD, ORIG_HEAD, index, objects/**, refs/**, logs/**, packed-refs, .tmp/**; pull additionally FETCH_HEAD, shallow; submodule init/update additionally config and modules/**; validated by benign baseline cases of every operation")
	c.Assume("a literal nested '.git' component below a plain directory (not the repository's .git, not a submodule) is counted (nested_dotgit_materialised) but not reported: the statement covers paths outside the worktree, inside the repository's .git and inside submodule git dirs")
	c.Assume("the remote of pull and the submodule source repository live in P/mid/lab, which is excluded from the watched area because the transport legitimately reads it")
}
