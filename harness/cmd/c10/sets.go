package main

import (
	"bytes"
	"fmt"
	"math/rand"
	"sort"
)

type entry struct {
	hash []byte
	off  uint64
	crc  uint32
}

// eset is one generated entry set with its map model.
type eset struct {
	hsz     int
	entries []entry // sorted by hash
	byHash  map[string]int
	byOff   map[uint64]int
	shape   string
	pack    []byte // pack checksum (hsz bytes)
}

func (s *eset) finish() {
	sort.Slice(s.entries, func(i, j int) bool { return bytes.Compare(s.entries[i].hash, s.entries[j].hash) < 0 })
	s.byHash = map[string]int{}
	s.byOff = map[uint64]int{}
	for i, e := range s.entries {
		s.byHash[string(e.hash)] = i
		s.byOff[e.off] = i
	}
}

func (s *eset) withPrefix(p []byte) []entry {
	var out []entry
	for _, e := range s.entries {
		if bytes.HasPrefix(e.hash, p) {
			out = append(out, e)
		}
	}
	return out
}

func (s *eset) byOffset() []entry {
	out := append([]entry{}, s.entries...)
	sort.Slice(out, func(i, j int) bool { return out[i].off < out[j].off })
	return out
}

var boundaryOffsets = []uint64{
	12, 13, 1<<31 - 1, 1 << 31, 1<<31 + 1, 1<<32 - 1, 1 << 32, 1<<32 + 1, 1 << 40, 1<<40 + 12345, 1<<62 + 7, 1<<63 - 1,
}

// genSet builds one entry set. kinds cycle through the structural classes of the property's quantifier.
func genSet(r *rand.Rand, k int) *eset {
	s := &eset{hsz: 20}
	if k%5 == 4 {
		s.hsz = 32
	}
	kinds := []string{"empty", "single", "one-per-bucket", "one-bucket-300", "shared-19-byte-prefix", "random-small", "random-medium", "edge-buckets-00-ff", "dense-two-buckets", "random-large"}
	kind := kinds[(k/2)%len(kinds)]
	offKinds := []string{"small", "straddle-2^31", "all-64bit", "mixed-up-to-2^40", "huge"}
	offKind := offKinds[r.Intn(len(offKinds))]
	seen := map[string]bool{}
	add := func(h []byte) {
		if seen[string(h)] || bytes.Equal(h, make([]byte, len(h))) { // the all-zero id is go-git's "no hash" marker, never a real object
			return
		}
		seen[string(h)] = true
		s.entries = append(s.entries, entry{hash: h, crc: r.Uint32()})
	}
	rh := func() []byte {
		h := make([]byte, s.hsz)
		r.Read(h)
		return h
	}
	switch kind {
	case "empty":
	case "single":
		h := rh()
		h[0] = []byte{0x00, 0xff, 0x7f, byte(r.Intn(256))}[r.Intn(4)]
		add(h)
	case "one-per-bucket":
		for b := 0; b < 256; b++ {
			h := rh()
			h[0] = byte(b)
			add(h)
		}
	case "one-bucket-300":
		b := byte(r.Intn(256))
		for i := 0; i < 300; i++ {
			h := rh()
			h[0] = b
			add(h)
		}
	case "shared-19-byte-prefix":
		for g := 0; g < 1+r.Intn(4); g++ {
			p := rh()
			for i := 0; i < 2+r.Intn(12); i++ {
				h := append([]byte{}, p...)
				h[s.hsz-1] = byte(r.Intn(256))
				if r.Intn(3) == 0 {
					h[s.hsz-2] = byte(r.Intn(4))
				}
				add(h)
			}
		}
	case "random-small":
		for i := 0; i < 2+r.Intn(20); i++ {
			add(rh())
		}
	case "random-medium":
		for i := 0; i < 100+r.Intn(400); i++ {
			add(rh())
		}
	case "edge-buckets-00-ff":
		for i := 0; i < 3+r.Intn(10); i++ {
			h := rh()
			h[0] = []byte{0x00, 0xff, 0x01, 0xfe}[r.Intn(4)]
			if r.Intn(4) == 0 { // all-zero / all-ff tails
				for j := 1; j < s.hsz; j++ {
					h[j] = h[0]
				}
				h[s.hsz-1] = byte(r.Intn(3))
			}
			add(h)
		}
	case "dense-two-buckets":
		b := byte(r.Intn(255))
		for i := 0; i < 40+r.Intn(60); i++ {
			h := rh()
			h[0] = b + byte(r.Intn(2))
			h[1] = byte(r.Intn(3)) // many shared 2-byte prefixes
			add(h)
		}
	case "random-large":
		for i := 0; i < 2000+r.Intn(3000); i++ {
			add(rh())
		}
	}
	// offsets: unique
	used := map[uint64]bool{}
	pick := func(i int) uint64 {
		for {
			var o uint64
			switch offKind {
			case "small":
				o = 12 + uint64(r.Intn(1<<20))
			case "straddle-2^31":
				o = 1<<31 - 8 + uint64(r.Intn(16))
				if len(s.entries) > 14 {
					o = 1<<31 - 4000 + uint64(r.Intn(8000))
				}
			case "all-64bit":
				o = 1<<31 + uint64(r.Int63n(1<<40))
			case "mixed-up-to-2^40":
				if r.Intn(2) == 0 {
					o = 12 + uint64(r.Int63n(1<<31-12))
				} else {
					o = uint64(r.Int63n(1 << 40))
				}
				if r.Intn(6) == 0 {
					o = boundaryOffsets[r.Intn(len(boundaryOffsets))]
				}
			default:
				o = boundaryOffsets[r.Intn(len(boundaryOffsets))] + uint64(r.Intn(3))
				if o > 1<<63-1 {
					o = 1<<63 - 1 - uint64(r.Intn(1000))
				}
				if r.Intn(3) == 0 {
					o = uint64(r.Int63())
				}
			}
			if o < 12 {
				o = 12
			}
			if !used[o] {
				used[o] = true
				return o
			}
		}
	}
	for i := range s.entries {
		s.entries[i].off = pick(i)
	}
	if len(s.entries) > 0 {
		// a real pack always has its first object at offset 12: at least one offset is 32-bit. git's size formula
		// for idx v2 (at most nr-1 64-bit entries) relies on it, and so does go-git's decoder.
		v := r.Intn(len(s.entries))
		if !used[12] {
			s.entries[v].off = 12
		}
	}
	s.pack = make([]byte, s.hsz)
	r.Read(s.pack)
	s.finish()
	n64 := 0
	for _, e := range s.entries {
		if e.off > 1<<31-1 {
			n64++
		}
	}
	c64 := "no64"
	switch {
	case n64 == len(s.entries) && n64 > 0:
		c64 = "all64"
	case n64 > 0:
		c64 = "some64"
	}
	s.shape = fmt.Sprintf("%s/%s/%s/sha%d", kind, offKind, c64, map[int]int{20: 1, 32: 256}[s.hsz])
	return s
}
