// C10: pack index lookups agree across implementations and with a map model;
// malformed idx/rev files are rejected rather than answered from.
//
// Part A (in process): generated entry sets are written through idxfile.Writer,
// encoded with idxfile.Encode / revfile.Encode and read back by MemoryIndex
// (as built and as decoded), LazyIndex (with and without fd pool) and
// mmap.PackScanner; every query of the Index surface is compared with a plain
// map; a sample of the idx files is listed by `git show-index`.
// Part B (child processes): structurally damaged idx/rev files are opened by
// every reader; panics, acceptance by the checksum-verifying decoder and wrong
// answers from files git itself refuses are findings.
package main

import (
	"bufio"
	"bytes"
	"encoding/json"
	"fmt"
	"os"
	"os/exec"
	"strconv"
	"strings"
	"sync"
	"time"

	"github.com/go-git/go-git/v6/x/fdpool"

	"verif/internal/gitx"
	"verif/internal/vf"
)

func main() {
	if spec := os.Getenv("C10_CHILD"); spec != "" {
		childMain(spec)
		return
	}
	vf.Main("C10", "exploration",
		"part A: entry sets (empty, single, one per fan-out bucket, 300 in one bucket, shared 19-byte prefixes, edge buckets 00/ff, dense 2-byte prefixes, random up to 5000; sha1 and sha256 ids; offsets small / straddling 2^31 / all 64-bit / mixed up to 2^40 / up to 2^63-1) built via idxfile.Writer in shuffled order; probes = members, near-miss hashes, every prefix length of sampled members and perturbed prefixes, all offsets and offsets+-1, full iterations; shape = set kind x offset kind x 64-bit mix x hash size; part B: ~25 kinds of damage (truncation per section, extension, fan-out count changes, non-monotone fan-out, moved bucket boundary, 64-bit index out of range, magic/version, checksum-only flips, rev truncation/extension/magic/version/hash-id/out-of-range/duplicate entries) per set; non-trivial = set with >= 1 entry resp. any damaged file",
		run)
}

func shuffled(n int, r interface{ Perm(int) []int }) []int { return r.Perm(n) }

func run(c *vf.Ctx) {
	g := gitx.New(c.Scratch)
	nSets := c.N(140, 1500)
	mmDir := c.TempDir("mmap")
	pool := fdpool.New(3)
	var mu sync.Mutex
	type gitJob struct {
		s    *eset
		idxB []byte
		k    int
	}
	var gitJobs []gitJob

	vf.Parallel(nSets, 6, func(k int) {
		r := c.Rand("set", k)
		s := genSet(r, k)
		pr := c.Rand("probes", k)
		n := len(s.entries)
		fail := func(key, what string) {
			c.Fail(key, fmt.Sprintf("set %d (%s, %d entries): %s", k, s.shape, n, what), map[string]any{"set": k, "shape": s.shape, "entries": n})
		}
		c.Eval(s.shape, n > 0)
		c.Count("entries_indexed", n)
		// build through the writer, entries arriving in pack (offset) order or shuffled
		order := shuffled(n, c.Rand("order", k))
		if k%3 == 0 {
			bo := s.byOffset()
			for i, e := range bo {
				order[i] = s.byHash[string(e.hash)]
			}
		}
		var built *impl
		var idxB, revB []byte
		if pv, st := vf.Catch(func() {
			mi, err := buildMemory(s, k%2 == 0, order)
			if err != nil {
				fail("writer:error", "idxfile.Writer: "+err.Error())
				return
			}
			built = &impl{name: "memory-built", idx: mi}
			var eerr error
			idxB, revB, eerr = encodeBoth(mi, s.hsz)
			if eerr != nil {
				if n == 0 && idxB != nil {
					c.Count("empty_set_rev_not_encodable", 1) // revfile.Encode refuses an empty index; nothing to read back
					return
				}
				fail("encode:error", eerr.Error())
				idxB = nil
			}
		}); pv != nil {
			fail("writer-or-encode:panic", fmt.Sprintf("%v\n%s", pv, st))
			return
		}
		if built == nil {
			return
		}
		p := makeProbes(s, pr, c.N(150, 400))
		impls := []*impl{built}
		var closers []func()
		if idxB != nil {
			if pv, st := vf.Catch(func() {
				mi, err := decodeIdx(idxB, s.hsz)
				if err != nil {
					fail("decoder:rejects-own-encoding", "idxfile.Decoder rejects what idxfile.Encode wrote: "+err.Error())
					return
				}
				if !bytes.Equal(mi.PackfileChecksum.Bytes(), s.pack) {
					fail("decoder:pack-checksum", fmt.Sprintf("decoded PackfileChecksum %x, expected %x", mi.PackfileChecksum.Bytes(), s.pack))
				}
				impls = append(impls, &impl{name: "memory-decoded", idx: mi})
				// re-encoding the decoded index must give the same bytes
				i2, _, err := encodeBoth(mi, s.hsz)
				if i2 != nil && !bytes.Equal(i2, idxB) {
					fail("encode:not-idempotent", "Encode(Decode(Encode(idx))) differs from Encode(idx)")
				}
			}); pv != nil {
				fail("decoder:panic", fmt.Sprintf("%v\n%s", pv, st))
			}
		}
		if idxB != nil && revB != nil {
			for _, withPool := range []bool{false, true} {
				name, pl := "lazy", (*fdpool.Pool)(nil)
				if withPool {
					name, pl = "lazy-pool", pool
				}
				if pv, st := vf.Catch(func() {
					li, err := openLazy(idxB, revB, s.pack, pl)
					if err != nil {
						fail(name+":open-error", "NewLazyIndex on well-formed files: "+err.Error())
						return
					}
					impls = append(impls, &impl{name: name, idx: li})
					closers = append(closers, func() { li.Close() })
				}); pv != nil {
					fail(name+":open-panic", fmt.Sprintf("%v\n%s", pv, st))
				}
			}
			if pv, st := vf.Catch(func() {
				sc, cl, err := openMmap(mmDir, idxB, revB, s.pack, n, s.hsz)
				if err != nil {
					if n == 0 {
						c.Count("mmap_refuses_empty_index", 1)
						return
					}
					fail("mmap:open-error", "mmap.NewPackScanner on well-formed files: "+err.Error())
					return
				}
				impls = append(impls, &impl{name: "mmap", mm: sc})
				closers = append(closers, cl)
			}); pv != nil {
				fail("mmap:open-panic", fmt.Sprintf("%v\n%s", pv, st))
			}
		}
		for ii, m := range impls {
			c.Seen("implementations", m.name)
			q := 0
			fs, pn := guarded(s, m, p, false, (k+ii)%2 == 0, &q)
			c.Count("queries", q)
			if pn != "" {
				fail(m.name+":panic", "query battery panicked: "+pn)
			}
			seen := map[string]bool{}
			for _, f := range fs {
				if !seen[f.key] {
					seen[f.key] = true
					fail(f.key, f.what)
				}
			}
		}
		for _, cl := range closers {
			cl()
		}
		if k < 3 {
			c.Sample(map[string]any{"set": k, "shape": s.shape, "entries": n, "idx_bytes": len(idxB), "rev_bytes": len(revB), "implementations": len(impls)})
		}
		if idxB != nil && (k%4 == 0 || n == 0) && n <= 3000 {
			mu.Lock()
			gitJobs = append(gitJobs, gitJob{s, idxB, k})
			mu.Unlock()
		}
	})

	// git cross-check of the written idx files
	vf.Parallel(len(gitJobs), 6, func(i int) {
		j := gitJobs[i]
		args := []string{"show-index"}
		if j.s.hsz == 32 {
			args = append(args, "--object-format=sha256")
		}
		res := g.RunIn(c.Scratch, j.idxB, args...)
		if res.Timeout || res.Code == -1 {
			c.Inconclusive("git show-index did not run: %s", res)
			return
		}
		if res.Code != 0 {
			c.Fail("git-show-index:rejects", fmt.Sprintf("set %d (%s): git show-index refuses the idx go-git wrote: %s", j.k, j.s.shape, res), map[string]any{"set": j.k})
			return
		}
		var want bytes.Buffer
		for _, e := range j.s.entries {
			fmt.Fprintf(&want, "%d %x (%08x)\n", e.off, e.hash, e.crc)
		}
		c.Count("git_confirmations", 1)
		if !bytes.Equal(want.Bytes(), res.Out) {
			gl, wl := strings.Split(string(res.Out), "\n"), strings.Split(want.String(), "\n")
			d := ""
			for x := range wl {
				if x >= len(gl) || gl[x] != wl[x] {
					got := "<missing>"
					if x < len(gl) {
						got = gl[x]
					}
					d = fmt.Sprintf("line %d: git reads %q, written entry is %q", x, got, wl[x])
					break
				}
			}
			c.Fail("git-show-index:differs", fmt.Sprintf("set %d (%s): %s", j.k, j.s.shape, d), map[string]any{"set": j.k})
		}
	})

	// part B in child processes
	nCorruptSets := c.N(90, 900)
	workers := 4
	per := (nCorruptSets + workers - 1) / workers
	var wg sync.WaitGroup
	for wk := 0; wk < workers; wk++ {
		from, to := wk*per, min((wk+1)*per, nCorruptSets)
		if from >= to {
			continue
		}
		wg.Add(1)
		go func() {
			defer wg.Done()
			runChildren(c, mmDir, from, to)
		}()
	}
	wg.Wait()

	c.Extra("git_invocations", gitx.Calls.Load())
	c.Floor("entry sets", nSets, nSets)
	c.Floor("queries compared with the map model", c.Counter("queries"), c.N(150000, 1500000))
	c.Floor("implementations driven", c.SeenCount("implementations"), 5)
	c.Floor("git show-index confirmations", c.Counter("git_confirmations"), c.N(30, 300))
	c.Floor("corrupted files", c.Counter("corrupted_files"), c.N(1500, 15000))
	c.Floor("corruption kinds", c.SeenCount("corruption_kinds"), 25)
	c.Floor("queries on corrupted files that opened", c.Counter("queries_on_corrupted"), c.N(20000, 200000))
	c.Assume("reference for 'malformed': the checks of git 2.39.5 load_idx / load_revindex_from_disk (magic, version, monotone fan-out, size formula) plus the lookup-time bound check of the 64-bit offset table; damage git cannot detect without verifying checksums (payload bit flips, moved bucket boundary, rev entries out of range or duplicated) must not panic and must be refused by the checksum-verifying idxfile.Decoder, but wrong answers from LazyIndex/mmap on such files are only counted")
	c.Assume("offsets are unique per set and <= 2^63-1 (the Index interface returns int64); a Contains=false / not-found answer on a damaged file counts as refusal")
}

// runChildren evaluates sets [from,to) in child processes, restarting after a child death.
func runChildren(c *vf.Ctx, dir string, from, to int) {
	skipK, skipJ := -1, -1
	for attempt := 0; attempt < 30; attempt++ {
		spec := fmt.Sprintf("%d:%d:%d:%d", from, to, skipK, skipJ)
		cmd := exec.Command(os.Args[0])
		cmd.Env = append(os.Environ(), "C10_CHILD="+spec, "C10_SEED="+strconv.FormatInt(c.Seed, 10), "C10_TIER="+c.Tier, "C10_DIR="+dir)
		var stderr bytes.Buffer
		cmd.Stderr = &stderr
		out, err := cmd.StdoutPipe()
		if err != nil {
			c.Broken("child pipe: %v", err)
			return
		}
		if err := cmd.Start(); err != nil {
			c.Broken("child start: %v", err)
			return
		}
		timer := time.AfterFunc(40*time.Minute, func() { cmd.Process.Kill() })
		done := false
		curK, curJ, curKind, curShape := -1, -1, "", ""
		inCase := false
		sc := bufio.NewScanner(out)
		sc.Buffer(make([]byte, 1<<20), 1<<26)
		for sc.Scan() {
			var f []string
			for _, part := range strings.Split(sc.Text(), "\t") {
				var s string
				if json.Unmarshal([]byte(part), &s) != nil {
					s = part
				}
				f = append(f, s)
			}
			switch f[0] {
			case "BEGIN":
				curK, _ = strconv.Atoi(f[1])
				curJ, _ = strconv.Atoi(f[2])
				curKind, curShape = f[3], f[4]
				inCase = true
			case "END":
				inCase = false
			case "E":
				c.Eval(f[1], f[2] == "1")
			case "S":
				c.Seen(f[1], f[2])
			case "C":
				n, _ := strconv.Atoi(f[2])
				c.Count(f[1], n)
			case "F":
				var rp any
				json.Unmarshal([]byte(f[3]), &rp)
				c.Fail(f[1], f[2], rp)
			case "B":
				c.Broken("%s", f[1])
			case "DONE":
				done = true
			}
		}
		werr := cmd.Wait()
		timer.Stop()
		if done {
			return
		}
		if !inCase {
			c.Broken("child for sets [%d,%d) died outside a case: %v\n%s", from, to, werr, tail(stderr.String()))
			return
		}
		// the process died (fatal error, signal) while handling one damaged file
		c.Fail("any:corrupt:"+curKind+":fatal", fmt.Sprintf("the process died while a reader handled a %s file (%s): %v\n%s", curKind, curShape, werr, tail(stderr.String())),
			map[string]any{"set": curK, "corruption": curJ, "kind": curKind})
		skipK, skipJ = curK, curJ
	}
	c.Broken("child for sets [%d,%d) kept dying", from, to)
}

func tail(s string) string {
	if len(s) > 3000 {
		return s[:3000]
	}
	return s
}
