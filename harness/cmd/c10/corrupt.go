package main

import (
	"bufio"
	"encoding/binary"
	"encoding/json"
	"fmt"
	"math/rand"
	"os"
	"strconv"
	"strings"

	"github.com/go-git/go-git/v6/x/fdpool"

	"verif/internal/vf"
)

type corr struct {
	kind   string
	idx    []byte
	rev    []byte
	target string // "idx" | "rev": which file was damaged
	victim int    // entry position (index order) whose record was damaged, -1 if n/a
}

func clone(b []byte) []byte { return append([]byte{}, b...) }

// layout of an idx v2 file with n entries.
type layout struct{ fanout, names, crc, off32, off64, trailer, end int }

func idxLayout(n, n64, hsz int) layout {
	var l layout
	l.fanout = 8
	l.names = 8 + 1024
	l.crc = l.names + n*hsz
	l.off32 = l.crc + 4*n
	l.off64 = l.off32 + 4*n
	l.trailer = l.off64 + 8*n64
	l.end = l.trailer + 2*hsz
	return l
}

func corruptions(r *rand.Rand, s *eset, idxB, revB []byte) []corr {
	n := len(s.entries)
	n64 := 0
	for _, e := range s.entries {
		if e.off > 1<<31-1 {
			n64++
		}
	}
	l := idxLayout(n, n64, s.hsz)
	if l.end != len(idxB) {
		panic(fmt.Sprintf("harness: idx layout %d != %d", l.end, len(idxB)))
	}
	var out []corr
	addI := func(kind string, b []byte, victim int) {
		out = append(out, corr{kind: kind, idx: b, rev: revB, target: "idx", victim: victim})
	}
	addR := func(kind string, b []byte) {
		out = append(out, corr{kind: kind, idx: idxB, rev: b, target: "rev", victim: -1})
	}
	cut := func(lo, hi int) int {
		if hi <= lo {
			return lo
		}
		return lo + r.Intn(hi-lo)
	}
	// truncations, one per section
	type sec struct {
		name   string
		lo, hi int
	}
	for _, sc := range []sec{{"header", 0, 8}, {"fanout", 8, l.names}, {"names", l.names, l.crc}, {"crc", l.crc, l.off32}, {"off32", l.off32, l.off64}, {"off64", l.off64, l.trailer}, {"trailer", l.trailer, l.end}} {
		if sc.hi > sc.lo && r.Intn(2) == 0 {
			addI("idx-trunc@"+sc.name, clone(idxB[:cut(sc.lo, sc.hi)]), -1)
		}
	}
	addI("idx-trunc-1", clone(idxB[:len(idxB)-1]), -1)
	addI("idx-extend", append(clone(idxB), make([]byte, []int{1, 4, 8, 28, 1000}[r.Intn(5)])...), -1)
	setFan := func(b []byte, k int, v uint32) { binary.BigEndian.PutUint32(b[8+4*k:], v) }
	getFan := func(b []byte, k int) uint32 { return binary.BigEndian.Uint32(b[8+4*k:]) }
	for _, d := range []struct {
		name string
		add  int64
	}{{"count+1", 1}, {"count-1", -1}, {"count+2^31", 1 << 31}, {"count+small", int64(2 + r.Intn(40))}} {
		v := int64(n) + d.add
		if v < 0 || v > 1<<32-1 || (d.add < 0 && n > 0 && uint32(v) < getFan(idxB, 254)) {
			continue
		}
		b := clone(idxB)
		setFan(b, 255, uint32(v))
		addI("idx-"+d.name, b, -1)
	}
	if n > 0 {
		// inflate every bucket from the first non-empty one on (monotone stays intact)
		b := clone(idxB)
		add := uint32(1 + r.Intn(3))
		first := int(s.entries[0].hash[0])
		for k := first; k < 256; k++ {
			setFan(b, k, getFan(b, k)+add)
		}
		addI("idx-all-buckets+k", b, -1)
		// non monotone
		b = clone(idxB)
		k := r.Intn(255)
		setFan(b, k, getFan(b, 255)+1+uint32(r.Intn(5)))
		addI("idx-fanout-nonmonotone", b, -1)
		// bucket boundary moved but still monotone (not detectable from sizes)
		b = clone(idxB)
		k = int(s.entries[r.Intn(n)].hash[0])
		if k > 0 && getFan(b, k) > getFan(b, k-1) {
			setFan(b, k-1, getFan(b, k))
			addI("idx-bucket-boundary-moved", b, -1)
		}
		// offset table entry pointing outside the 64-bit table
		b = clone(idxB)
		v := r.Intn(n)
		binary.BigEndian.PutUint32(b[l.off32+4*v:], 0x80000000|uint32(n64+r.Intn(1000)))
		addI("idx-off64-index-out-of-range", b, v)
		b = clone(idxB)
		binary.BigEndian.PutUint32(b[l.off32+4*v:], 0xffffffff)
		addI("idx-off64-index-max", b, v)
		// payload damage only detectable through the checksum
		b = clone(idxB)
		b[l.crc+4*v+r.Intn(4)] ^= 0x40
		addI("idx-crc-bitflip", b, v)
	}
	b := clone(idxB)
	b[r.Intn(4)] ^= 0x01
	addI("idx-magic", b, -1)
	b = clone(idxB)
	b[7] = byte(1 + 2*r.Intn(2))
	addI("idx-version", b, -1)
	b = clone(idxB)
	b[l.trailer+r.Intn(s.hsz)] ^= 0x10
	addI("idx-pack-checksum", b, -1)
	b = clone(idxB)
	b[l.trailer+s.hsz+r.Intn(s.hsz)] ^= 0x10
	addI("idx-own-checksum", b, -1)

	if len(revB) > 0 {
		addR("rev-trunc", clone(revB[:r.Intn(len(revB))]))
		addR("rev-trunc-1", clone(revB[:len(revB)-1]))
		addR("rev-extend", append(clone(revB), make([]byte, 4)...))
		b = clone(revB)
		b[r.Intn(4)] ^= 0x20
		addR("rev-magic", b)
		b = clone(revB)
		b[7] = 2
		addR("rev-version", b)
		b = clone(revB)
		b[11] = 7
		addR("rev-hash-id", b)
		if n > 0 {
			b = clone(revB)
			binary.BigEndian.PutUint32(b[12+4*r.Intn(n):], uint32(n+r.Intn(5)))
			addR("rev-entry-out-of-range", b)
			b = clone(revB)
			binary.BigEndian.PutUint32(b[12+4*r.Intn(n):], 0xffffffff)
			addR("rev-entry-max", b)
		}
		if n > 1 {
			b = clone(revB)
			i, j := r.Intn(n), r.Intn(n)
			copy(b[12+4*i:12+4*i+4], revB[12+4*j:12+4*j+4])
			addR("rev-duplicate-entry", b)
		}
	}
	return out
}

// checkClass names the validation that would catch a kind of damage.
func checkClass(kind string) string {
	switch {
	case strings.HasPrefix(kind, "idx-trunc"), kind == "idx-extend", strings.HasPrefix(kind, "idx-count"), kind == "idx-all-buckets+k":
		return "idx-size-vs-count"
	case strings.HasPrefix(kind, "idx-off64-index"):
		return "idx-off64-index-range"
	case kind == "idx-magic", kind == "idx-version":
		return "idx-header"
	case kind == "idx-crc-bitflip", kind == "idx-pack-checksum", kind == "idx-own-checksum":
		return "idx-checksum-only"
	case strings.HasPrefix(kind, "rev-trunc"), kind == "rev-extend":
		return "rev-size"
	case kind == "rev-magic", kind == "rev-version", kind == "rev-hash-id":
		return "rev-header"
	case strings.HasPrefix(kind, "rev-entry"):
		return "rev-entry-range"
	}
	return kind
}

// gitOpenRejectsIdx transcribes the checks of git's load_idx (packfile.c) for a v2 idx.
func gitOpenRejectsIdx(b []byte, hsz int) bool {
	if len(b) < 4*256+hsz+hsz {
		return true
	}
	if string(b[:4]) != "\xfftOc" {
		return true // would be parsed as v1: not what go-git claims to support either way
	}
	if binary.BigEndian.Uint32(b[4:]) != 2 {
		return true
	}
	var prev uint32
	for k := 0; k < 256; k++ {
		v := binary.BigEndian.Uint32(b[8+4*k:])
		if v < prev {
			return true
		}
		prev = v
	}
	nr := uint64(prev)
	min := uint64(8+4*256) + nr*uint64(hsz+4+4) + uint64(2*hsz)
	max := min
	if nr > 0 {
		max += (nr - 1) * 8
	}
	return uint64(len(b)) < min || uint64(len(b)) > max
}

// gitOpenRejectsRev transcribes load_revindex_from_disk (pack-revindex.c).
func gitOpenRejectsRev(b []byte, n, hsz int) bool {
	if len(b) < 12+2*hsz {
		return true
	}
	if len(b) != 12+4*n+2*hsz {
		return true
	}
	if string(b[:4]) != "RIDX" || binary.BigEndian.Uint32(b[4:]) != 1 {
		return true
	}
	id := binary.BigEndian.Uint32(b[8:])
	return id != 1 && id != 2
}

// ---- child process: evaluates the corrupted files of sets [from, to) ----

func emit(w *bufio.Writer, parts ...string) {
	for i, p := range parts {
		if i > 0 {
			w.WriteByte('\t')
		}
		js, _ := json.Marshal(p)
		w.Write(js)
	}
	w.WriteByte('\n')
	w.Flush()
}

func childMain(spec string) {
	f := strings.Split(spec, ":")
	from, _ := strconv.Atoi(f[0])
	to, _ := strconv.Atoi(f[1])
	skipK, skipJ := -1, -1
	if len(f) >= 4 {
		skipK, _ = strconv.Atoi(f[2])
		skipJ, _ = strconv.Atoi(f[3])
	}
	seed, _ := strconv.ParseInt(os.Getenv("C10_SEED"), 10, 64)
	c := &vf.Ctx{ID: "C10", Seed: seed, Tier: os.Getenv("C10_TIER")}
	dir := os.Getenv("C10_DIR")
	w := bufio.NewWriter(os.Stdout)
	pool := fdpool.New(4)
	for k := from; k < to; k++ {
		s := genSet(c.Rand("set", k), k)
		if len(s.entries) > 700 {
			continue
		}
		order := make([]int, len(s.entries))
		for i := range order {
			order[i] = i
		}
		mi, err := buildMemory(s, true, order)
		if err != nil {
			emit(w, "B", fmt.Sprintf("child: buildMemory set %d: %v", k, err))
			continue
		}
		idxB, revB, err := encodeBoth(mi, s.hsz)
		if err != nil && len(s.entries) > 0 {
			emit(w, "B", fmt.Sprintf("child: encode set %d: %v", k, err))
			continue
		}
		r := c.Rand("corrupt", k)
		cs := corruptions(r, s, idxB, revB)
		p := makeProbes(s, c.Rand("probes", k), 60)
		for j, cr := range cs {
			if k < skipK || (k == skipK && j <= skipJ) {
				continue
			}
			emit(w, "BEGIN", strconv.Itoa(k), strconv.Itoa(j), cr.kind, s.shape)
			evalCorruption(w, dir, s, p, cr, pool, k)
			emit(w, "END", strconv.Itoa(k), strconv.Itoa(j))
		}
	}
	emit(w, "DONE")
}

func evalCorruption(w *bufio.Writer, dir string, s *eset, p probes, cr corr, pool *fdpool.Pool, k int) {
	n := len(s.entries)
	gitRejects := gitOpenRejectsIdx(cr.idx, s.hsz)
	if cr.target == "rev" {
		gitRejects = gitOpenRejectsRev(cr.rev, n, s.hsz)
	}
	lookupReject := strings.HasPrefix(cr.kind, "idx-off64-index") // git dies at lookup time ("offset beyond end of pack index")
	class := "git-undetected"
	if gitRejects {
		class = "git-rejects-at-open"
	} else if lookupReject {
		class = "git-rejects-at-lookup"
	}
	emit(w, "E", cr.kind+"/"+class+"/"+s.shape, "1")
	emit(w, "S", "corruption_kinds", cr.kind)
	emit(w, "C", "corrupted_files", "1")
	ck := checkClass(cr.kind)
	replay := fmt.Sprintf(`{"set":%d,"kind":%q,"shape":%q,"entries":%d}`, k, cr.kind, s.shape, n)
	fail := func(implName, outcome, what string) {
		emit(w, "F", implName+":corrupt:"+ck+":"+outcome, what, replay)
	}
	report := func(m *impl, fs []finding, panicked string, queries int) {
		emit(w, "C", "queries_on_corrupted", strconv.Itoa(queries))
		if panicked != "" {
			fail(m.name, "panic", fmt.Sprintf("%s on a %s file (%s, %d entries): query panicked: %s", m.name, cr.kind, s.shape, n, panicked))
			return
		}
		if len(fs) == 0 {
			return
		}
		if !gitRejects && !lookupReject {
			emit(w, "C", "wrong_answers_from_corruption_git_cannot_detect_either", strconv.Itoa(len(fs)))
			return
		}
		for _, f := range fs {
			if lookupReject && !gitRejects {
				// only the damaged record is in question: answers about it must be errors
				if cr.victim < 0 || !strings.Contains(f.what, fmt.Sprintf("%x", s.entries[cr.victim].hash)) {
					continue
				}
			}
			fail(m.name, "answered", fmt.Sprintf("%s opened a %s file (%s, %d entries; git refuses it: %s) and answered from it: %s", m.name, cr.kind, s.shape, n, class, f.what))
			break
		}
	}

	// full decoder (verifies sizes and the checksum): any damaged idx must be refused
	if cr.target == "idx" {
		var di *impl
		var derr error
		if pv, st := vf.Catch(func() {
			mi, err := decodeIdx(cr.idx, s.hsz)
			derr = err
			if err == nil {
				di = &impl{name: "decoder", idx: mi}
			}
		}); pv != nil {
			fail("decoder", "panic", fmt.Sprintf("idxfile.Decoder panicked on a %s file (%s): %v\n%s", cr.kind, s.shape, pv, st))
		} else if derr == nil {
			q := 0
			fs, pn := guarded(s, di, p, true, false, &q)
			switch {
			case gitRejects:
				fail("decoder", "accepted", fmt.Sprintf("idxfile.Decoder.Decode accepted a damaged idx (%s, %s, %d entries) that git's load_idx refuses", cr.kind, s.shape, n))
			case pn != "" || len(fs) > 0:
				d := pn
				if d == "" {
					d = fs[0].what
				}
				fail("decoder", "accepted-and-answered", fmt.Sprintf("idxfile.Decoder.Decode (which verifies the idx checksum) accepted a damaged idx (%s, %s, %d entries) and answers from it: %s", cr.kind, s.shape, n, d))
			default:
				emit(w, "C", "decoder_accepted_damage_without_effect_on_answers", "1") // e.g. trailing bytes inside git's size tolerance
			}
		} else {
			emit(w, "C", "rejected_at_open", "1")
		}
	}
	// lazy index, with and without fd pool
	for _, withPool := range []bool{false, true} {
		name := "lazy"
		pl := (*fdpool.Pool)(nil)
		if withPool {
			name, pl = "lazy-pool", pool
		}
		var m *impl
		if pv, st := vf.Catch(func() {
			li, err := openLazy(cr.idx, cr.rev, s.pack, pl)
			if err == nil {
				m = &impl{name: name, idx: li}
			}
		}); pv != nil {
			fail(name, "panic", fmt.Sprintf("NewLazyIndex panicked on a %s file (%s): %v\n%s", cr.kind, s.shape, pv, st))
			continue
		}
		if m == nil {
			emit(w, "C", "rejected_at_open", "1")
			continue
		}
		emit(w, "C", "opened_despite_corruption", "1")
		q := 0
		fs, pn := guarded(s, m, p, true, withPool, &q)
		report(m, fs, pn, q)
		m.idx.Close()
	}
	// mmap scanner
	{
		var m *impl
		var closer func()
		if pv, st := vf.Catch(func() {
			sc, cl, err := openMmap(dir, cr.idx, cr.rev, s.pack, n, s.hsz)
			if err == nil {
				m, closer = &impl{name: "mmap", mm: sc}, cl
			}
		}); pv != nil {
			fail("mmap", "panic", fmt.Sprintf("mmap.NewPackScanner panicked on a %s file (%s): %v\n%s", cr.kind, s.shape, pv, st))
			return
		}
		if m == nil {
			emit(w, "C", "rejected_at_open", "1")
			return
		}
		emit(w, "C", "opened_despite_corruption", "1")
		q := 0
		fs, pn := guarded(s, m, p, true, false, &q)
		report(m, fs, pn, q)
		closer()
	}
}
