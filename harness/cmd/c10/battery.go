package main

import (
	"bytes"
	"fmt"
	"math/rand"

	"verif/internal/vf"
)

func offClass(o uint64) string {
	switch {
	case o < 1<<31:
		return "off<2^31"
	case o < 1<<32:
		return "off-2^31..2^32"
	default:
		return "off>=2^32"
	}
}

func prefixClass(n, hsz int) string {
	switch {
	case n == 0:
		return "len0"
	case n == 1:
		return "len1"
	case n == hsz:
		return "full"
	default:
		return "len2.." + fmt.Sprint(hsz-1)
	}
}

type finding struct {
	key  string
	what string
}

// probes derives the probe lists for a set (members, near misses, prefixes, offsets).
type probes struct {
	members    []int
	nonMembers [][]byte
	prefixes   [][]byte
	offsets    []uint64 // non-member offsets
}

func makeProbes(s *eset, r *rand.Rand, maxMembers int) probes {
	var p probes
	n := len(s.entries)
	if n <= maxMembers {
		for i := 0; i < n; i++ {
			p.members = append(p.members, i)
		}
	} else {
		p.members = append(p.members, 0, n-1)
		for len(p.members) < maxMembers {
			p.members = append(p.members, r.Intn(n))
		}
	}
	addNon := func(h []byte) {
		if _, ok := s.byHash[string(h)]; !ok {
			p.nonMembers = append(p.nonMembers, h)
		}
	}
	for k, i := range p.members {
		if k > 40 {
			break
		}
		h := s.entries[i].hash
		for _, pos := range []int{s.hsz - 1, 0, 1, s.hsz / 2} {
			for _, d := range []int{1, -1} {
				m := append([]byte{}, h...)
				m[pos] = byte(int(m[pos]) + d)
				addNon(m)
			}
		}
	}
	for i := 0; i < 6; i++ {
		h := make([]byte, s.hsz)
		r.Read(h)
		addNon(h)
	}
	addNon(make([]byte, s.hsz))
	addNon(bytes.Repeat([]byte{0xff}, s.hsz))
	// prefixes
	p.prefixes = append(p.prefixes, []byte{}, []byte{0x00}, []byte{0xff}, []byte{byte(r.Intn(256))})
	for k, i := range p.members {
		if k >= 6 {
			break
		}
		h := s.entries[i].hash
		for l := 1; l <= s.hsz; l++ {
			p.prefixes = append(p.prefixes, append([]byte{}, h[:l]...))
		}
		// perturbed prefixes: last byte +-1 at a few lengths
		for _, l := range []int{1, 2, s.hsz - 1, s.hsz} {
			for _, d := range []int{1, -1} {
				m := append([]byte{}, h[:l]...)
				m[l-1] = byte(int(m[l-1]) + d)
				p.prefixes = append(p.prefixes, m)
			}
		}
	}
	for k, i := range p.members {
		if k > 60 {
			break
		}
		o := s.entries[i].off
		for _, c := range []uint64{o + 1, o - 1} {
			if _, ok := s.byOff[c]; !ok && c <= 1<<63-1 {
				p.offsets = append(p.offsets, c)
			}
		}
	}
	for _, c := range []uint64{0, 1 << 31, 1 << 32, 1<<63 - 1, uint64(r.Int63())} {
		if _, ok := s.byOff[c]; !ok {
			p.offsets = append(p.offsets, c)
		}
	}
	return p
}

func sameEntries(a, b []entry) (bool, string) {
	if len(a) != len(b) {
		return false, fmt.Sprintf("%d entries, expected %d", len(a), len(b))
	}
	for i := range a {
		if !bytes.Equal(a[i].hash, b[i].hash) || a[i].off != b[i].off || a[i].crc != b[i].crc {
			return false, fmt.Sprintf("entry %d is (%x, %d, %08x), expected (%x, %d, %08x)", i, a[i].hash, a[i].off, a[i].crc, b[i].hash, b[i].off, b[i].crc)
		}
	}
	return true, ""
}

// battery runs every query of the Index surface against the map model.
// corrupted=false: any deviation (including an error) is a finding.
// corrupted=true: errors are fine (the file is malformed); only answers that differ from the truth are findings.
// hashFirst selects whether offset->hash lookups come before hash->offset lookups (MemoryIndex builds its reverse map lazily).
func battery(s *eset, m *impl, p probes, corrupted, hashFirst bool, queries *int) []finding {
	var out []finding
	add := func(q, feat, what string) {
		out = append(out, finding{m.name + ":" + q + ":" + feat, what})
	}
	n := len(s.entries)

	byOffsetLookups := func() {
		for _, i := range p.members {
			e := s.entries[i]
			if e.off > 1<<63-1 {
				continue
			}
			*queries++
			h, err := m.findHash(e.off)
			switch {
			case err != nil && !corrupted:
				add("FindHash", "member-error:"+offClass(e.off), fmt.Sprintf("FindHash(%d) of member %x: %v", e.off, e.hash, err))
			case err == nil && !bytes.Equal(h, e.hash):
				add("FindHash", "wrong-hash:"+offClass(e.off), fmt.Sprintf("FindHash(%d) = %x, expected %x", e.off, h, e.hash))
			}
		}
		for _, o := range p.offsets {
			*queries++
			h, err := m.findHash(o)
			if err == nil {
				add("FindHash", "nonmember-answered:"+offClass(o), fmt.Sprintf("FindHash(%d) = %x although no entry has that offset", o, h))
			}
		}
	}
	if hashFirst {
		byOffsetLookups()
	}
	if m.full() {
		*queries++
		if c, err := m.idx.Count(); err != nil {
			if !corrupted {
				add("Count", "error", err.Error())
			}
		} else if c != int64(n) {
			add("Count", "wrong", fmt.Sprintf("Count() = %d, expected %d", c, n))
		}
	}
	for _, i := range p.members {
		e := s.entries[i]
		*queries++
		o, err := m.findOffset(e.hash)
		switch {
		case err != nil && !corrupted:
			add("FindOffset", "member-error:"+offClass(e.off), fmt.Sprintf("FindOffset(%x): %v (expected %d)", e.hash, err, e.off))
		case err == nil && o != e.off:
			add("FindOffset", "wrong-offset:"+offClass(e.off), fmt.Sprintf("FindOffset(%x) = %d, expected %d", e.hash, o, e.off))
		}
		if !m.full() {
			continue
		}
		*queries += 3
		if ok, err := m.idx.Contains(oid(e.hash)); err != nil {
			if !corrupted {
				add("Contains", "member-error", fmt.Sprintf("Contains(%x): %v", e.hash, err))
			}
		} else if !ok && !corrupted {
			add("Contains", "member-false", fmt.Sprintf("Contains(%x) = false for a member", e.hash))
		}
		if !m.idx.MayContain(oid(e.hash)) && !corrupted {
			add("MayContain", "member-false", fmt.Sprintf("MayContain(%x) = false for a member (false must be authoritative)", e.hash))
		}
		if c, err := m.idx.FindCRC32(oid(e.hash)); err != nil {
			if !corrupted {
				add("FindCRC32", "member-error", fmt.Sprintf("FindCRC32(%x): %v", e.hash, err))
			}
		} else if c != e.crc {
			add("FindCRC32", "wrong", fmt.Sprintf("FindCRC32(%x) = %08x, expected %08x", e.hash, c, e.crc))
		}
	}
	for _, h := range p.nonMembers {
		*queries++
		if o, err := m.findOffset(h); err == nil {
			add("FindOffset", "nonmember-answered", fmt.Sprintf("FindOffset(%x) = %d although the hash is not in the index", h, o))
		}
		if !m.full() {
			continue
		}
		*queries += 2
		if ok, err := m.idx.Contains(oid(h)); err == nil && ok {
			add("Contains", "nonmember-true", fmt.Sprintf("Contains(%x) = true for a non-member", h))
		} else if err != nil && !corrupted {
			add("Contains", "nonmember-error", fmt.Sprintf("Contains(%x): %v", h, err))
		}
		if c, err := m.idx.FindCRC32(oid(h)); err == nil {
			add("FindCRC32", "nonmember-answered", fmt.Sprintf("FindCRC32(%x) = %08x for a non-member", h, c))
		}
	}
	if !hashFirst {
		byOffsetLookups()
	}
	if !m.full() {
		return out
	}
	limit := n + 8
	*queries++
	if it, err := m.idx.Entries(); err != nil {
		if !corrupted {
			add("Entries", "error", err.Error())
		}
	} else if got, err := drain(it, limit); err != nil {
		if !corrupted {
			add("Entries", "iter-error", err.Error())
		}
	} else if ok, why := sameEntries(got, s.entries); !ok {
		add("Entries", "wrong", "Entries(): "+why)
	}
	*queries++
	if it, err := m.idx.EntriesByOffset(); err != nil {
		if !corrupted {
			add("EntriesByOffset", "error", err.Error())
		}
	} else if got, err := drain(it, limit); err != nil {
		if !corrupted {
			add("EntriesByOffset", "iter-error", err.Error())
		}
	} else if ok, why := sameEntries(got, s.byOffset()); !ok {
		add("EntriesByOffset", "wrong", "EntriesByOffset(): "+why)
	}
	for _, pre := range p.prefixes {
		*queries++
		want := s.withPrefix(pre)
		it, err := m.idx.EntriesWithPrefix(pre)
		if err != nil {
			if !corrupted {
				add("EntriesWithPrefix", "error:"+prefixClass(len(pre), s.hsz), fmt.Sprintf("EntriesWithPrefix(%x): %v", pre, err))
			}
			continue
		}
		got, err := drain(it, limit)
		if err != nil {
			if !corrupted {
				add("EntriesWithPrefix", "iter-error:"+prefixClass(len(pre), s.hsz), fmt.Sprintf("EntriesWithPrefix(%x): %v", pre, err))
			}
			continue
		}
		if ok, why := sameEntries(got, want); !ok {
			k := "wrong:"
			if len(got) < len(want) {
				k = "missing-entries:"
			} else if len(got) > len(want) {
				k = "extra-entries:"
			}
			add("EntriesWithPrefix", k+prefixClass(len(pre), s.hsz), fmt.Sprintf("EntriesWithPrefix(%x): %s", pre, why))
		}
	}
	return out
}

// guarded runs the battery under vf.Catch.
func guarded(s *eset, m *impl, p probes, corrupted, hashFirst bool, queries *int) (fs []finding, panicked string) {
	if pv, st := vf.Catch(func() { fs = battery(s, m, p, corrupted, hashFirst, queries) }); pv != nil {
		return fs, fmt.Sprintf("%v\n%s", pv, st)
	}
	return fs, ""
}
