package main

import (
	"bytes"
	"crypto/sha1"
	"crypto/sha256"
	"fmt"
	"hash"
	"io"
	"io/fs"
	"os"
	"path/filepath"
	"time"

	"github.com/go-git/go-billy/v6/osfs"
	"github.com/go-git/go-git/v6/plumbing"
	"github.com/go-git/go-git/v6/plumbing/format/idxfile"
	"github.com/go-git/go-git/v6/plumbing/format/revfile"
	"github.com/go-git/go-git/v6/storage/filesystem/mmap"
	"github.com/go-git/go-git/v6/x/fdpool"
)

func newHash(hsz int) hash.Hash {
	if hsz == 32 {
		return sha256.New()
	}
	return sha1.New()
}

func oid(b []byte) plumbing.Hash {
	h, ok := plumbing.FromBytes(b)
	if !ok {
		panic(fmt.Sprintf("harness: bad hash length %d", len(b)))
	}
	return h
}

// buildMemory builds the index through idxfile.Writer (observer interface or Add).
func buildMemory(s *eset, viaObserver bool, order []int) (*idxfile.MemoryIndex, error) {
	w := new(idxfile.Writer)
	if err := w.OnHeader(uint32(len(s.entries))); err != nil {
		return nil, err
	}
	for _, i := range order {
		e := s.entries[i]
		if viaObserver && e.off <= 1<<63-1 {
			if err := w.OnInflatedObjectContent(oid(e.hash), int64(e.off), e.crc, nil); err != nil {
				return nil, err
			}
		} else {
			w.Add(oid(e.hash), e.off, e.crc)
		}
	}
	if err := w.OnFooter(oid(s.pack)); err != nil {
		return nil, err
	}
	return w.Index()
}

type statReader struct {
	*bytes.Reader
	size int64
}

type fakeInfo struct{ size int64 }

func (f fakeInfo) Name() string       { return "x.idx" }
func (f fakeInfo) Size() int64        { return f.size }
func (f fakeInfo) Mode() fs.FileMode  { return 0o444 }
func (f fakeInfo) ModTime() time.Time { return time.Time{} }
func (f fakeInfo) IsDir() bool        { return false }
func (f fakeInfo) Sys() any           { return nil }

func (s statReader) Stat() (fs.FileInfo, error) { return fakeInfo{s.size}, nil }

func decodeIdx(b []byte, hsz int) (*idxfile.MemoryIndex, error) {
	idx := idxfile.NewMemoryIndex(hsz)
	err := idxfile.NewDecoder(statReader{bytes.NewReader(b), int64(len(b))}, newHash(hsz)).Decode(idx)
	if err != nil {
		return nil, err
	}
	return idx, nil
}

type memRA struct{ *bytes.Reader }

func (memRA) Close() error { return nil }

func openLazy(idxB, revB, pack []byte, pool *fdpool.Pool) (*idxfile.LazyIndex, error) {
	oi := func() (idxfile.ReadAtCloser, error) { return memRA{bytes.NewReader(idxB)}, nil }
	or := func() (idxfile.ReadAtCloser, error) { return memRA{bytes.NewReader(revB)}, nil }
	if pool != nil {
		return idxfile.NewLazyIndexWithPool(oi, or, oid(pack), pool)
	}
	return idxfile.NewLazyIndex(oi, or, oid(pack))
}

func dummyPack(pack []byte, n int) []byte {
	var b bytes.Buffer
	b.WriteString("PACK")
	b.Write([]byte{0, 0, 0, 2})
	b.Write([]byte{byte(n >> 24), byte(n >> 16), byte(n >> 8), byte(n)})
	for b.Len()+len(pack) < 32 {
		b.WriteByte(0)
	}
	b.Write(pack)
	return b.Bytes()
}

func openMmap(dir string, idxB, revB, pack []byte, n, hsz int) (*mmap.PackScanner, func(), error) {
	d, err := os.MkdirTemp(dir, "mm")
	if err != nil {
		return nil, nil, err
	}
	os.WriteFile(filepath.Join(d, "p.pack"), dummyPack(pack, n), 0o644)
	os.WriteFile(filepath.Join(d, "p.idx"), idxB, 0o644)
	os.WriteFile(filepath.Join(d, "p.rev"), revB, 0o644)
	fsys := osfs.New(d)
	pf, e1 := fsys.Open("p.pack")
	xf, e2 := fsys.Open("p.idx")
	rf, e3 := fsys.Open("p.rev")
	if e1 != nil || e2 != nil || e3 != nil {
		os.RemoveAll(d)
		return nil, nil, fmt.Errorf("harness open: %v %v %v", e1, e2, e3)
	}
	s, err := mmap.NewPackScanner(hsz, pf, xf, rf)
	if err != nil {
		os.RemoveAll(d)
		return nil, nil, err
	}
	return s, func() { s.Close(); os.RemoveAll(d) }, nil
}

// impl is one index implementation under test behind a uniform query surface.
type impl struct {
	name string
	idx  idxfile.Index
	mm   *mmap.PackScanner
}

func (m *impl) full() bool { return m.idx != nil }

func (m *impl) findOffset(h []byte) (uint64, error) {
	if m.mm != nil {
		return m.mm.FindOffset(oid(h))
	}
	o, err := m.idx.FindOffset(oid(h))
	return uint64(o), err
}

func (m *impl) findHash(off uint64) ([]byte, error) {
	if m.mm != nil {
		h, err := m.mm.FindHash(off)
		return h.Bytes(), err
	}
	h, err := m.idx.FindHash(int64(off))
	return h.Bytes(), err
}

func drain(it idxfile.EntryIter, limit int) ([]entry, error) {
	defer it.Close()
	var out []entry
	for {
		e, err := it.Next()
		if err == io.EOF {
			return out, nil
		}
		if err != nil {
			return out, err
		}
		if e == nil {
			return out, fmt.Errorf("iterator returned nil entry and nil error")
		}
		out = append(out, entry{hash: append([]byte{}, e.Hash.Bytes()...), off: e.Offset, crc: e.CRC32})
		if len(out) > limit {
			return out, fmt.Errorf("iterator yields more than %d entries", limit)
		}
	}
}

func encodeBoth(mi *idxfile.MemoryIndex, hsz int) (idxB, revB []byte, err error) {
	var ib, rb bytes.Buffer
	if err := idxfile.Encode(&ib, newHash(hsz), mi); err != nil {
		return nil, nil, fmt.Errorf("idxfile.Encode: %w", err)
	}
	if err := revfile.Encode(&rb, newHash(hsz), mi); err != nil {
		return ib.Bytes(), nil, fmt.Errorf("revfile.Encode: %w", err)
	}
	return ib.Bytes(), rb.Bytes(), nil
}
