# sourced by every script: offline Go toolchain that builds /repo (go 1.26.0)
export PATH=/root/go/pkg/mod/golang.org/toolchain@v0.0.1-go1.26.0.linux-amd64/bin:$PATH
export GOTOOLCHAIN=local GOFLAGS=-mod=mod GOPROXY=off GONOSUMDB='*' GONOSUMCHECK=1 GOFLAGS=-mod=mod
export CGO_ENABLED=1
