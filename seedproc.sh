#!/bin/bash
# ./seedproc.sh <Cnn> <name> '<demo command run from the seed worktree root>'
# Confirms a seeded change (demo fails with it, passes without it) and runs the property's check against it on a scratch copy.
ID=$1; NAME=$2; DEMO=$3
. /verif/env.sh
W=/tmp/seed-$ID; D=/verif/seeded/$ID-$NAME
mkdir -p $D; cp $W/_seed/patch.diff $W/_seed/NOTES.md $D/ 2>/dev/null; cp $W/_seed/demo_test.go $D/ 2>/dev/null; [ -d $W/_seed/demo ] && cp -r $W/_seed/demo $D/
cd $W || exit 1
git apply --check -R _seed/patch.diff 2>/dev/null || git apply _seed/patch.diff
go build ./... || { echo "$ID BUILD-FAIL"; exit 1; }
with=$(bash -c "$DEMO" 2>&1 | tail -1)
git apply -R _seed/patch.diff
without=$(bash -c "$DEMO" 2>&1 | tail -1)
git apply _seed/patch.diff
cd /verif
out=$(./mutate.sh $D/patch.diff $ID quick 2>&1)
nv=$(echo "$out" | grep -c '^VIOLATION'); keys=$(echo "$out" | grep '^VIOLATION' | sed 's/.*key=\([^ ]*\) ::.*/\1/' | sort -u | head -5 | tr '\n' ' ')
echo "$ID $NAME | demo with change: [$with] | without: [$without] | check: $(echo "$out" | grep MUTATE: | tail -1) violations=$nv keys=$keys | $(echo "$out" | grep '^SUMMARY' | cut -c1-160)"
